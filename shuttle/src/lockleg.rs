//! Lock-discipline leg of C04: a sample of the main engine's histories (same seeds, same plans)
//! executed inside a shuttle execution with the library's context mutex replaced by shuttle's.
//! A re-entrant `lock()` on the context mutex — the historical deadlock on the error path of
//! `Context::unify` — is reported by shuttle immediately and deterministically ("tried to acquire
//! a Mutex it already holds") instead of hanging a futex.

use crate::engines::c04::{Plan, C04};
use crate::sup::{Engine, RunOut, Tier};
use serde_json::{json, Value as Json};
use shuttle::scheduler::RandomScheduler;
use std::sync::{Arc, Mutex as StdMutex};

pub struct C04Lock;

/// every 50th history of the quick tier (3 200 DAGs), every 20th of the thorough tier (150 000)
fn sample_every(tier: Tier) -> u64 {
    tier.pick(50, 20)
}

fn run_inside_shuttle(plan: &Plan, out: &mut RunOut) {
    // every mutex operation is a scheduling point here: rendering costs several times more CPU
    crate::engines::c04::DISPLAY_SECS_SCALE.store(6, std::sync::atomic::Ordering::Relaxed);
    let inner = Arc::new(StdMutex::new(Some(RunOut::new(false))));
    let inner2 = Arc::clone(&inner);
    let p = Arc::new(plan.clone());
    let mut cfg = shuttle::Config::new();
    cfg.stack_size = 2 << 20;
    cfg.failure_persistence = shuttle::FailurePersistence::None;
    cfg.silence_warnings = true;
    // single simulated thread: no livelock to bound, and long histories take millions of steps
    cfg.max_steps = shuttle::MaxSteps::None;
    let res = std::panic::catch_unwind(std::panic::AssertUnwindSafe(|| {
        shuttle::Runner::new(RandomScheduler::new_from_seed(1, 1), cfg).run(move || {
            // never hold the std mutex across the execution: a panicking task's continuation is
            // leaked by shuttle, guard included
            let taken = inner2.lock().unwrap().take();
            if let Some(mut o) = taken {
                C04.exec_plan(&p, &mut o);
                *inner2.lock().unwrap() = Some(o);
            }
        });
    }));
    let taken = inner.lock().unwrap_or_else(|e| e.into_inner()).take();
    if let Some(o) = taken {
        out.merge_from(o);
    }
    if let Err(p) = res {
        let msg = if let Some(s) = p.downcast_ref::<String>() {
            s.clone()
        } else if let Some(s) = p.downcast_ref::<&str>() {
            (*s).to_owned()
        } else {
            "<panic>".into()
        };
        let key = if msg.contains("already holds") || msg.contains("deadlock") { "context-mutex-relocked" } else { "shuttle-panic" };
        out.violation("lock-discipline", key, msg, || plan.to_json());
    }
}

impl Engine for C04Lock {
    fn property_id(&self) -> String {
        "C04".into()
    }
    // same name as the main engine: run i of both legs is the same plan
    fn engine_name(&self) -> String {
        C04.engine_name()
    }
    fn level(&self) -> &'static str {
        "exploration"
    }
    fn rule(&self) -> String {
        "lock-discipline leg: every 50th (quick) / 20th (thorough) history of the main engine, executed inside a shuttle execution with the context mutex owned by shuttle".to_owned()
    }
    fn assumptions(&self) -> Vec<String> {
        vec!["single simulated thread: only re-entrant locking is visible here; cross-thread lock behaviour is C20's subject".into()]
    }
    fn components(&self) -> Json {
        json!({"real": ["simplicity-lang with feature verif-shuttle"], "stub": ["context Mutex = shuttle::sync::Mutex"], "model": ["independent unifier, as in the main leg"]})
    }
    fn n_runs(&self, tier: Tier) -> u64 {
        C04.n_runs(tier)
    }
    fn worker_stack(&self) -> usize {
        16 << 20
    }
    fn hang_secs(&self) -> u64 {
        // CPU seconds without a heartbeat (sup.rs); a re-entrant lock is reported by shuttle itself
        120
    }
    fn run(&self, run: u64, seed: u64, tier: Tier, out: &mut RunOut) {
        if run % sample_every(tier) != 0 {
            return;
        }
        let plan = C04::plan_for(seed, tier);
        out.count("lock_leg_histories_sampled", 1);
        run_inside_shuttle(&plan, out);
    }
    fn replay(&self, plan: &Json, out: &mut RunOut) {
        if let Some(p) = Plan::from_json(plan) {
            run_inside_shuttle(&p, out);
        }
    }
    fn shrink(&self, plan: &Json) -> Vec<Json> {
        C04.shrink(plan)
    }
    fn evidence_name(&self) -> Option<String> {
        Some("C04-lock-leg".into())
    }
}
