fn main() {
    static E: vshuttle::lockleg::C04Lock = vshuttle::lockleg::C04Lock;
    vshuttle::sup::main_with(&E)
}
