fn main() {
    static E: vshuttle::scenario::C20 = vshuttle::scenario::C20;
    vshuttle::sup::main_with(&E)
}
