fn main() {
    let args: Vec<String> = std::env::args().collect();
    if let Some(i) = args.iter().position(|a| a == "--reference-of") {
        vshuttle::scenario::reference_main(&args[i + 1]);
    }
    static E: vshuttle::scenario::C20 = vshuttle::scenario::C20;
    vshuttle::sup::main_with(&E)
}
