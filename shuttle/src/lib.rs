//! C20 (and the lock-discipline leg of C04): the library compiled with feature `verif-shuttle`,
//! so that its mutex, atomic counter, thread-locals and drop points are scheduling points owned
//! by shuttle. The simulator kit is shared with ../sim by path.

#[path = "../../sim/src/rng.rs"]
pub mod rng;
#[path = "../../sim/src/stream.rs"]
pub mod stream;
#[path = "../../sim/src/sup.rs"]
pub mod sup;
#[path = "../../sim/src/gen/mod.rs"]
pub mod gen;
pub mod models {
    #[path = "../../../sim/src/models/unify.rs"]
    pub mod unify;
}
pub mod engines {
    #[path = "../../../sim/src/engines/c04.rs"]
    pub mod c04;
}
pub mod lockleg;
pub mod scenario;
