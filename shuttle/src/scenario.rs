//! C20 — results are independent of threads and scheduling.
//!
//! World: 2..16 simulated threads (shuttle) sharing immutable programs, types and values; every
//! thread owns its inference contexts, machines and jet environments. The library is compiled
//! with `verif-shuttle`, so its context mutex, name counter, thread-local type tables and
//! iterative drops are scheduling points the simulator owns.
//!
//! Oracle: every operation's digest in the concurrent phase equals its digest when the same
//! operations are run one at a time; no panic, no deadlock, bounded steps.

use crate::gen::programs::{self, Family};
use crate::rng::{Fnv, Rng};
use crate::stream::{hex, unhex};
use crate::sup::{Engine, RunOut, Tier};
use serde_json::{json, Value as Json};
use shuttle::scheduler::{PctScheduler, RandomScheduler, ReplayScheduler};
use simplicity::dag::{DagLike, InternalSharing};
use simplicity::elements;
use simplicity::human_encoding::Forest;
use simplicity::jet::elements::ElementsEnv;
use simplicity::jet::{Core, CoreEnv, Elements};
use simplicity::node::{CoreConstructible, Inner};
use simplicity::policy::{Policy, Preimage32, Satisfier};
use simplicity::types;
use simplicity::{BitIter, BitMachine, Cmr, CommitNode, ConstructNode, FailEntropy, RedeemNode, Value};
use std::collections::hash_map::DefaultHasher;
use std::hash::{Hash, Hasher};
use std::sync::{Arc, Mutex as StdMutex};

pub struct C20;

pub const TASK_STACK: usize = 2 << 20;

#[derive(Clone, Debug, PartialEq)]
pub struct Shared {
    pub family: Family,
    pub program: Vec<u8>,
    pub witness: Vec<u8>,
    /// the program rebuilt through `to_construct_node` + `finalize_unpruned` gives the same digests
    /// for every per-program operation (checked when the plan was generated), so it may be
    /// shared in its fresh, never traversed state
    pub rebuild_ok: bool,
}

#[derive(Clone, Debug, PartialEq)]
pub enum Op {
    Decode(usize),
    DecodeFlipped(usize, usize),
    DecodeCommit(usize),
    Roots(usize),
    Unfinalize(usize),
    ToConstruct(usize),
    Exec(usize),
    Prune(usize),
    Build(u64, usize, Family),
    IllTyped(u8),
    Policy(u8),
    Human(usize),
    Values(u64),
    /// touch the three precomputed type tables through several entry points
    TypeTables(u64),
    /// two extra simulated threads build expressions over shared nodes in ONE inference context
    /// (context handles are Clone + Send + Sync; every primitive step is one critical section)
    SharedContext(u64),
    /// drop this thread's reference to shared program i (last-reference drops race)
    DropShared(usize),
}

#[derive(Clone, Debug, PartialEq)]
pub struct Plan {
    pub shared: Vec<Shared>,
    pub threads: Vec<Vec<Op>>,
    /// "random" or "pct:<depth>"
    pub scheduler: String,
    pub sched_seed: u64,
    pub iterations: usize,
    /// for replay files: the failing schedule as persisted by shuttle
    pub schedule: Option<String>,
    /// digests of every operation when the threads' op lists are run one after the other by a
    /// single thread in a FRESH process (so that process-wide state is in its initial condition)
    pub reference: Option<Vec<Vec<u64>>>,
}

fn op_json(o: &Op) -> Json {
    match o {
        Op::Decode(i) => json!(["decode", i]),
        Op::DecodeFlipped(i, b) => json!(["decode_flipped", i, b]),
        Op::DecodeCommit(i) => json!(["decode_commit", i]),
        Op::Roots(i) => json!(["roots", i]),
        Op::Unfinalize(i) => json!(["unfinalize", i]),
        Op::ToConstruct(i) => json!(["to_construct", i]),
        Op::Exec(i) => json!(["exec", i]),
        Op::Prune(i) => json!(["prune", i]),
        Op::Build(s, n, f) => json!(["build", s.to_string(), n, f.name()]),
        Op::IllTyped(k) => json!(["ill_typed", k]),
        Op::Policy(k) => json!(["policy", k]),
        Op::Human(k) => json!(["human", k]),
        Op::Values(s) => json!(["values", s.to_string()]),
        Op::TypeTables(s) => json!(["type_tables", s.to_string()]),
        Op::SharedContext(s) => json!(["shared_context", s.to_string()]),
        Op::DropShared(i) => json!(["drop_shared", i]),
    }
}

fn ju(j: &Json) -> u64 {
    match j {
        Json::String(s) => s.parse().unwrap_or(0),
        o => o.as_u64().unwrap_or(0),
    }
}

fn op_from(j: &Json) -> Option<Op> {
    let u = |k: usize| ju(&j[k]) as usize;
    Some(match j[0].as_str()? {
        "decode" => Op::Decode(u(1)),
        "decode_flipped" => Op::DecodeFlipped(u(1), u(2)),
        "decode_commit" => Op::DecodeCommit(u(1)),
        "roots" => Op::Roots(u(1)),
        "unfinalize" => Op::Unfinalize(u(1)),
        "to_construct" => Op::ToConstruct(u(1)),
        "exec" => Op::Exec(u(1)),
        "prune" => Op::Prune(u(1)),
        "build" => Op::Build(ju(&j[1]), u(2), Family::from_name(j[3].as_str().unwrap_or("core"))),
        "ill_typed" => Op::IllTyped(u(1) as u8),
        "policy" => Op::Policy(u(1) as u8),
        "human" => Op::Human(u(1)),
        "values" => Op::Values(ju(&j[1])),
        "type_tables" => Op::TypeTables(ju(&j[1])),
        "shared_context" => Op::SharedContext(ju(&j[1])),
        "drop_shared" => Op::DropShared(u(1)),
        _ => return None,
    })
}

impl Plan {
    pub fn to_json(&self) -> Json {
        json!({
            "site": "c20-shuttle",
            "shared": self.shared.iter().map(|s| json!({"jets": s.family.name(), "program_hex": hex(&s.program), "witness_hex": hex(&s.witness), "rebuild_ok": s.rebuild_ok})).collect::<Vec<_>>(),
            "threads": self.threads.iter().map(|t| t.iter().map(op_json).collect::<Vec<_>>()).collect::<Vec<_>>(),
            "scheduler": self.scheduler,
            "sched_seed": self.sched_seed.to_string(),
            "iterations": self.iterations,
            "schedule": self.schedule,
            "reference": self.reference.as_ref().map(|r| r.iter().map(|t| t.iter().map(|d| format!("{:016x}", d)).collect::<Vec<_>>()).collect::<Vec<_>>()),
        })
    }
    pub fn from_json(j: &Json) -> Plan {
        Plan {
            shared: j["shared"]
                .as_array()
                .map(|a| {
                    a.iter()
                        .map(|s| Shared {
                            family: Family::from_name(s["jets"].as_str().unwrap_or("core")),
                            program: unhex(s["program_hex"].as_str().unwrap_or("")),
                            witness: unhex(s["witness_hex"].as_str().unwrap_or("")),
                            rebuild_ok: s["rebuild_ok"].as_bool().unwrap_or(false),
                        })
                        .collect()
                })
                .unwrap_or_default(),
            threads: j["threads"]
                .as_array()
                .map(|a| a.iter().map(|t| t.as_array().map(|o| o.iter().filter_map(op_from).collect()).unwrap_or_default()).collect())
                .unwrap_or_default(),
            scheduler: j["scheduler"].as_str().unwrap_or("random").to_owned(),
            sched_seed: ju(&j["sched_seed"]),
            iterations: (ju(&j["iterations"]) as usize).max(1),
            schedule: j["schedule"].as_str().map(|s| s.to_owned()),
            reference: j["reference"].as_array().map(|a| {
                a.iter()
                    .map(|t| t.as_array().map(|o| o.iter().filter_map(|d| u64::from_str_radix(d.as_str()?, 16).ok()).collect()).unwrap_or_default())
                    .collect()
            }),
        }
    }
    fn hash(&self) -> u64 {
        let mut h = Fnv::new();
        h.str(&self.to_json().to_string());
        h.0
    }
}

// ------------------------------------------------------------------------------------------
// operations and their digests

fn h64<T: Hash>(x: &T) -> u64 {
    let mut h = DefaultHasher::new();
    x.hash(&mut h);
    h.finish()
}

fn digest_bytes(tag: &str, parts: &[&[u8]]) -> u64 {
    let mut h = Fnv::new();
    h.str(tag);
    for p in parts {
        h.u64(p.len() as u64);
        h.bytes(p);
    }
    h.0
}

fn decode(s: &Shared, program: &[u8], witness: &[u8]) -> Result<Arc<RedeemNode>, simplicity::DecodeError> {
    programs::decode_jet_family(s.family, BitIter::new(program.iter().copied()), BitIter::new(witness.iter().copied()))
}

/// A fresh program object with the same content: nothing has traversed it yet, so whatever a node
/// computes lazily on first use is still to be computed (by several threads at once).
fn rebuild(p: &Arc<RedeemNode>) -> Option<Arc<RedeemNode>> {
    types::Context::with_context(|ctx| p.to_construct_node(&ctx).finalize_unpruned().ok())
}

/// Do the per-program operations give the same digests on the decoded and on the rebuilt object?
fn rebuild_equivalent(s: &Shared) -> bool {
    let d = match decode(s, &s.program, &s.witness) {
        Ok(d) => d,
        Err(_) => return false,
    };
    if d.as_ref().post_order_iter::<InternalSharing>().count() > 3000 {
        return false;
    }
    let r = match rebuild(&d) {
        Some(r) => r,
        None => return false,
    };
    let shared = vec![s.clone()];
    [Op::Roots(0), Op::Unfinalize(0), Op::ToConstruct(0), Op::Exec(0), Op::Prune(0)].iter().all(|op| {
        let mut a = vec![Some(Arc::clone(&d))];
        let mut b = vec![Some(Arc::clone(&r))];
        run_op(op, &shared, &mut a, false) == run_op(op, &shared, &mut b, false)
    })
}

fn redeem_digest(p: &RedeemNode) -> u64 {
    let (a, b) = p.to_vec_with_witness();
    digest_bytes("redeem", &[&a, &b, p.cmr().as_ref(), p.ihr().as_ref(), p.amr().as_ref()])
}

/// The commitment-time flow of a wallet: decode the program without witness, then attach the
/// witness values with `CommitNode::finalize` (a walk without sharing, so only for DAGs whose
/// tree expansion is small). Digest: roots of every node of the result.
fn commit_time_flow(redeem: &RedeemNode, fam: Family) -> u64 {
    use simplicity::dag::NoSharing;
    let (prog, _) = redeem.to_vec_with_witness();
    let decoded = match fam {
        Family::Core => CommitNode::decode::<_, Core>(BitIter::new(prog.iter().copied())),
        Family::Elements => CommitNode::decode::<_, simplicity::jet::Elements>(BitIter::new(prog.iter().copied())),
    };
    let commit = match decoded {
        Ok(c) => c,
        Err(_) => return digest_bytes("commit-flow-undecodable", &[]),
    };
    if commit.as_ref().post_order_iter::<NoSharing>().take(4001).count() > 4000 {
        return digest_bytes("commit-flow-too-wide", &[]);
    }
    let values: Vec<Value> = redeem
        .post_order_iter::<NoSharing>()
        .filter_map(|d| match d.node.inner() {
            simplicity::node::Inner::Witness(v) => Some(v.shallow_clone()),
            _ => None,
        })
        .collect();
    match commit.finalize(&mut simplicity::node::SimpleFinalizer::new(values.into_iter())) {
        Ok(r) => {
            let mut h = Fnv::new();
            for d in r.as_ref().post_order_iter::<InternalSharing>() {
                h.bytes(d.node.cmr().as_ref());
                h.bytes(d.node.ihr().as_ref());
                h.bytes(d.node.amr().as_ref());
                h.u64(d.node.bounds().extra_cells as u64);
            }
            h.u64(redeem_digest(&r));
            h.0
        }
        Err(_) => digest_bytes("commit-flow-finalize-err", &[]),
    }
}

fn decode_err_class(e: &simplicity::DecodeError) -> &'static str {
    match e {
        simplicity::DecodeError::Decode(_) => "Decode",
        simplicity::DecodeError::DisconnectRedeemTime => "DisconnectRedeemTime",
        simplicity::DecodeError::Type(_) => "Type",
        _ => "other",
    }
}

fn exec_class(e: &simplicity::bit_machine::ExecutionError) -> String {
    // class only: the variant name
    format!("{:?}", e).chars().take_while(|c| c.is_ascii_alphanumeric()).collect()
}

/// The library's own dummy environment is test-only; this is the same transaction built through
/// the public constructor. `ElementsEnv` holds raw pointers, so every thread builds its own.
fn dummy_env() -> ElementsEnv<Arc<elements::Transaction>> {
    use elements::{confidential, AssetIssuance};
    use simplicity::jet::elements::ElementsUtxo;
    let ctrl_blk: [u8; 33] = [
        0xc0, 0xeb, 0x04, 0xb6, 0x8e, 0x9a, 0x26, 0xd1, 0x16, 0x04, 0x6c, 0x76, 0xe8, 0xff, 0x47, 0x33, 0x2f, 0xb7, 0x1d, 0xda,
        0x90, 0xff, 0x4b, 0xef, 0x53, 0x70, 0xf2, 0x52, 0x26, 0xd3, 0xbc, 0x09, 0xfc,
    ];
    ElementsEnv::new(
        Arc::new(elements::Transaction {
            version: 2,
            lock_time: elements::LockTime::ZERO,
            input: vec![elements::TxIn {
                previous_output: elements::OutPoint::default(),
                is_pegin: false,
                script_sig: elements::Script::new(),
                sequence: elements::Sequence::MAX,
                asset_issuance: AssetIssuance::default(),
                witness: elements::TxInWitness::default(),
            }],
            output: Vec::default(),
        }),
        vec![ElementsUtxo {
            script_pubkey: elements::Script::new(),
            asset: confidential::Asset::Null,
            value: confidential::Value::Null,
        }],
        0,
        Cmr::from_byte_array([0; 32]),
        elements::taproot::ControlBlock::from_slice(&ctrl_blk).unwrap(),
        None,
        elements::BlockHash::GENESIS_PREVIOUS_BLOCK_HASH,
    )
}

/// Tracker that hashes the output bits of every terminal node (jets included), so that the digest
/// of an execution covers every intermediate result, not only the program's final output.
struct HashTracker(Fnv);

impl simplicity::bit_machine::ExecTracker for HashTracker {
    fn visit_node(&mut self, node: &RedeemNode, _input: simplicity::bit_machine::FrameIter, output: simplicity::bit_machine::NodeOutput) {
        use simplicity::bit_machine::NodeOutput;
        match output {
            NodeOutput::Success(mut it) => {
                self.0.u8(1);
                let w = node.arrow().target.bit_width().min(4096);
                for _ in 0..w {
                    match it.next() {
                        Some(b) => self.0.u8(u8::from(b)),
                        None => {
                            self.0.u8(9);
                            break;
                        }
                    }
                }
            }
            NodeOutput::JetFailed => self.0.u8(2),
            NodeOutput::NonTerminal => self.0.u8(3),
        }
    }
}

struct DetSatisfier<'b> {
    ctx: types::Context<'b>,
    keys: Vec<(elements::bitcoin::key::XOnlyPublicKey, elements::SchnorrSig)>,
    preimages: Vec<(elements::bitcoin::hashes::sha256::Hash, Preimage32)>,
}

impl<'b> Satisfier<'b, elements::bitcoin::key::XOnlyPublicKey> for DetSatisfier<'b> {
    fn inference_context(&self) -> &types::Context<'b> {
        &self.ctx
    }
    fn lookup_signature(&self, pk: &elements::bitcoin::key::XOnlyPublicKey) -> Option<elements::SchnorrSig> {
        self.keys.iter().find(|(k, _)| k == pk).map(|(_, s)| *s)
    }
    fn lookup_sha256(&self, h: &elements::bitcoin::hashes::sha256::Hash) -> Option<Preimage32> {
        self.preimages.iter().find(|(k, _)| k == h).map(|(_, p)| *p)
    }
    fn check_older(&self, _: elements::Sequence) -> bool {
        false
    }
    fn check_after(&self, _: elements::LockTime) -> bool {
        false
    }
}

fn det_keypair(i: u8) -> elements::bitcoin::key::Keypair {
    let secp = elements::secp256k1_zkp::Secp256k1::new();
    let mut sk = [0x11u8; 32];
    sk[31] = i + 1;
    elements::bitcoin::key::Keypair::from_seckey_slice(&secp, &sk).expect("valid secret key")
}

fn policy_op(kind: u8) -> u64 {
    use elements::bitcoin::hashes::sha256;
    type Pk = elements::bitcoin::key::XOnlyPublicKey;
    let env = dummy_env();
    let secp = elements::secp256k1_zkp::Secp256k1::new();
    let sighash = env.c_tx_env().sighash_all();
    let msg = elements::secp256k1_zkp::Message::from_digest(sighash.to_byte_array());
    let mut keys = Vec::new();
    for i in 0..3u8 {
        let kp = det_keypair(i);
        let sig = elements::SchnorrSig {
            sig: secp.sign_schnorr_no_aux_rand(&msg, &kp),
            hash_ty: elements::SchnorrSighashType::All,
        };
        keys.push((kp.x_only_public_key().0, sig));
    }
    let preimages: Vec<(sha256::Hash, Preimage32)> = (0..3u8).map(|i| (<sha256::Hash as elements::bitcoin::hashes::Hash>::hash(&[i; 32]), [i; 32])).collect();
    let pk = |i: usize| Policy::<Pk>::Key(keys[i].0);
    let sha = |i: usize| Policy::<Pk>::Sha256(preimages[i].0);
    // what this satisfier knows: a seeded subset of the three signatures and three preimages
    // (bits 0-2 / 3-5); the all-knowing satisfier keeps a third of the draws
    let sel = (kind / 10) as u32;
    // (a satisfier that lacks one or two credentials: the realistic way for two users of one
    // policy template to differ)
    let mask: u32 = if sel % 3 == 0 { 0x3f } else { 0x3f & !(1 << (sel % 6)) & !(1 << ((sel / 6) % 6)) };
    let or = |a: Policy<Pk>, b: Policy<Pk>| Policy::<Pk>::Or { left: Arc::new(a), right: Arc::new(b) };
    let and = |a: Policy<Pk>, b: Policy<Pk>| Policy::<Pk>::And { left: Arc::new(a), right: Arc::new(b) };
    let policy: Policy<Pk> = match kind % 10 {
        // nested disjunctions and thresholds that share sub-fragments across kinds: which branch is
        // taken (and so the witness, the pruned program and its roots) depends on the satisfier
        7 => or(or(pk(0), sha(1)), and(sha(2), sha(0))),
        8 => Policy::Threshold(2, vec![or(pk(0), sha(1)), pk(1), sha(2)]),
        9 => or(and(pk(2), sha(0)), or(pk(0), sha(1))),
        0 => pk(0),
        1 => Policy::And { left: Arc::new(pk(0)), right: Arc::new(sha(1)) },
        2 => Policy::Or { left: Arc::new(pk(1)), right: Arc::new(Policy::Unsatisfiable(FailEntropy::ZERO)) },
        3 => Policy::Threshold(2, vec![pk(0), sha(0), pk(2)]),
        4 => Policy::Or { left: Arc::new(Policy::Older(5)), right: Arc::new(sha(2)) },
        5 => Policy::Trivial,
        _ => Policy::And { left: Arc::new(Policy::After(7)), right: Arc::new(pk(1)) },
    };
    let cmr = policy.cmr();
    let commit = policy.commit();
    let commit_bytes = commit.to_vec_without_witness();
    let sat = types::Context::with_context(|ctx| {
        let satisfier = DetSatisfier {
            ctx,
            keys: keys.iter().enumerate().filter(|(i, _)| mask & (1 << i) != 0).map(|(_, k)| *k).collect(),
            preimages: preimages.iter().enumerate().filter(|(i, _)| mask & (8 << i) != 0).map(|(_, p)| *p).collect(),
        };
        match policy.satisfy(&satisfier, &env) {
            Ok(prog) => {
                let mut mac = BitMachine::for_program(&prog).expect("bounds");
                let ok = mac.exec(&prog, &env).is_ok();
                let (a, b) = prog.to_vec_with_witness();
                digest_bytes("sat", &[&a, &b, &[u8::from(ok)]])
            }
            Err(_) => digest_bytes("unsat", &[]),
        }
    });
    digest_bytes("policy", &[cmr.as_ref(), &commit_bytes, &sat.to_le_bytes()])
}

const HUMAN: [&str; 5] = [
    "main := comp unit unit",
    "main := comp (pair unit unit) unit",
    "main := comp (comp (pair (const 0x0000002a) (const 0x0000002a)) jet_eq_32) unit",
    "main := comp (injl unit) (case unit unit)",
    "main := comp (pair (injr unit) unit) (assertr #{cafe} unit)",
];

fn human_op(k: usize) -> u64 {
    let text = HUMAN[k % HUMAN.len()];
    match Forest::parse::<Core>(text) {
        Ok(f) => {
            let s = f.string_serialize();
            let cmr = f.roots().get("main").map(|n| n.cmr());
            let mut h = Fnv::new();
            h.str(&s);
            if let Some(c) = cmr {
                h.bytes(c.as_ref());
            }
            h.0
        }
        Err(_) => digest_bytes("human-err", &[]),
    }
}

fn values_op(seed: u64) -> u64 {
    let mut r = Rng::new(seed);
    let mut acc = Fnv::new();
    let mut pool: Vec<Value> = Vec::new();
    for _ in 0..6 {
        let v = match r.below(5) {
            0 => Value::u8(r.byte()),
            1 => Value::u32(r.next_u64() as u32),
            2 => Value::product(Value::u4(r.byte() & 15), Value::u4(r.byte() & 15)),
            3 => Value::some(Value::u16(r.next_u64() as u16)),
            _ => Value::left(Value::u1(r.byte() & 1), simplicity::types::Final::two_two_n(3).unwrap()),
        };
        acc.u64(h64(&v));
        for o in &pool {
            acc.u8(u8::from(*o == v));
            acc.u8(o.cmp(&v) as i8 as u8);
        }
        if let Some((l, _)) = v.as_product() {
            acc.u64(h64(&l.to_value()));
        }
        let bits: Vec<bool> = v.iter_compact().collect();
        acc.u64(bits.len() as u64);
        pool.push(v);
    }
    acc.0
}

fn final_digest(h: &mut Fnv, f: &simplicity::types::Final) {
    // structure (bounded walk), width, padding and TMR
    h.u64(f.bit_width() as u64);
    h.u8(u8::from(f.has_padding()));
    h.bytes(f.tmr().as_ref());
    let mut stack = vec![(f, 0usize)];
    let mut n = 0;
    while let Some((t, d)) = stack.pop() {
        n += 1;
        if n > 200 {
            break;
        }
        match t.bound() {
            simplicity::types::CompleteBound::Unit => h.u8(1),
            simplicity::types::CompleteBound::Sum(a, b) => {
                h.u8(2);
                h.u64(a.bit_width() as u64);
                if d < 12 {
                    stack.push((b, d + 1));
                    stack.push((a, d + 1));
                }
            }
            simplicity::types::CompleteBound::Product(a, b) => {
                h.u8(3);
                h.u64(b.bit_width() as u64);
                if d < 12 {
                    stack.push((b, d + 1));
                    stack.push((a, d + 1));
                }
            }
        }
    }
}

fn type_tables_op(seed: u64) -> u64 {
    use simplicity::types::Final;
    let mut r = Rng::new(seed);
    let mut h = Fnv::new();
    for _ in 0..4 {
        match r.below(5) {
            0 => {
                let n = r.usize_below(12);
                final_digest(&mut h, &Final::two_two_n(n).unwrap());
            }
            1 => {
                let n = r.usize_below(8);
                if let Ok(t) = Final::buffer8_two_n_plus_one(n) {
                    final_digest(&mut h, &t);
                }
            }
            2 => final_digest(&mut h, &Final::ctx8()),
            3 => {
                let l = r.usize_below(64);
                if let Ok(v) = Value::ctx8([r.byte(); 32], r.next_u64(), &r.bytes(l)) {
                    final_digest(&mut h, v.ty());
                    h.u64(v.compact_len() as u64);
                    h.u8(u8::from(v.is_of_type(&Final::ctx8())));
                }
            }
            _ => {
                let n = r.usize_below(5);
                let l = r.usize_below((2usize << n) - 1);
                if let Ok(v) = Value::buffer8_two_n_plus_one(n, &r.bytes(l)) {
                    final_digest(&mut h, v.ty());
                    let bits: Vec<u8> = v.iter_compact().map(u8::from).collect();
                    h.bytes(&bits);
                }
            }
        }
    }
    h.0
}

/// Two threads, one inference context. The constraint set drawn from the seed is used only if it
/// is satisfiable in both sequential orders (A then B, B then A): unification is confluent, so
/// every interleaving of the primitive steps must then succeed too and give the same types.
fn shared_context_op(seed: u64, concurrent: bool) -> u64 {
    #[derive(Clone, Copy)]
    struct Step {
        kind: u8,
        a: usize,
        b: usize,
    }
    let mut r = Rng::new(seed);
    let n_shared = r.urange(1, 3);
    let leaf_kinds: Vec<u8> = (0..n_shared).map(|_| r.below(3) as u8).collect();
    let gen_steps = |r: &mut Rng| -> Vec<Step> {
        let n = r.urange(1, 4);
        (0..n).map(|i| Step { kind: r.below(9) as u8, a: r.usize_below(n_shared + i), b: r.usize_below(n_shared + i) }).collect()
    };
    let steps_a = gen_steps(&mut r);
    let steps_b = gen_steps(&mut r);
    fn leaves<'b>(ctx: &types::Context<'b>, kinds: &[u8]) -> Vec<Arc<ConstructNode<'b>>> {
        kinds
            .iter()
            .map(|k| match k {
                0 => Arc::<ConstructNode>::iden(ctx),
                1 => simplicity::node::WitnessConstructible::witness(ctx, None),
                _ => Arc::<ConstructNode>::unit(ctx),
            })
            .collect()
    }
    // operands: shared leaves first, then this thread's own results
    fn build<'b>(_ctx: &types::Context<'b>, shared: &[Arc<ConstructNode<'b>>], steps: &[Step]) -> (bool, Vec<Arc<ConstructNode<'b>>>) {
        let mut own: Vec<Arc<ConstructNode<'b>>> = Vec::new();
        let mut ok = true;
        for st in steps {
            let get = |i: usize| -> Arc<ConstructNode<'b>> {
                if i < shared.len() {
                    Arc::clone(&shared[i])
                } else {
                    Arc::clone(&own[(i - shared.len()) % own.len().max(1)])
                }
            };
            if own.is_empty() && (st.a >= shared.len() || st.b >= shared.len()) {
                // not enough own nodes yet: use shared ones
            }
            let a = if st.a < shared.len() || !own.is_empty() { get(st.a) } else { Arc::clone(&shared[0]) };
            let b = if st.b < shared.len() || !own.is_empty() { get(st.b) } else { Arc::clone(&shared[0]) };
            let res: Result<Arc<ConstructNode<'b>>, types::Error> = match st.kind {
                0 => Arc::<ConstructNode>::comp(&a, &b),
                1 => Arc::<ConstructNode>::pair(&a, &b),
                2 => Arc::<ConstructNode>::case(&a, &b),
                3 => Arc::<ConstructNode>::assertl(&a, Cmr::from_byte_array([3; 32])),
                4 => Arc::<ConstructNode>::assertr(Cmr::from_byte_array([4; 32]), &a),
                5 => Ok(Arc::<ConstructNode>::injl(&a)),
                6 => Ok(Arc::<ConstructNode>::take(&a)),
                7 => Ok(Arc::<ConstructNode>::drop_(&a)),
                _ => simplicity::node::DisconnectConstructible::disconnect(&a, &None),
            };
            match res {
                Ok(n) => own.push(n),
                Err(_) => {
                    ok = false;
                    break;
                }
            }
        }
        (ok, own)
    }
    fn digest_nodes(h: &mut Fnv, nodes: &[Arc<ConstructNode<'_>>]) {
        for n in nodes {
            match n.arrow().finalize() {
                Ok(a) => {
                    h.bytes(a.source.tmr().as_ref());
                    h.bytes(a.target.tmr().as_ref());
                }
                Err(_) => h.u8(0xee),
            }
        }
    }
    // satisfiable in both sequential orders?
    let sat = |first: &[Step], second: &[Step]| -> bool {
        types::Context::with_context(|ctx| {
            let sh = leaves(&ctx, &leaf_kinds);
            build(&ctx, &sh, first).0 && build(&ctx, &sh, second).0
        })
    };
    if !(sat(&steps_a, &steps_b) && sat(&steps_b, &steps_a)) {
        return digest_bytes("shared-context-unsat", &[]);
    }
    types::Context::with_context(|ctx| {
        let sh = leaves(&ctx, &leaf_kinds);
        let (ra, rb) = if concurrent {
            // results are handed out through slots rather than ScopedJoinHandle::join: in shuttle
            // 0.9.3 the last scoped thread unblocks the scope's owner before its own result is
            // stored, which trips an explicit join ("target should have finished")
            let slot_a = StdMutex::new(None);
            let slot_b = StdMutex::new(None);
            shuttle::thread::scope(|s| {
                s.spawn(|| {
                    let r = build(&ctx, &sh, &steps_a);
                    *slot_a.lock().unwrap() = Some(r);
                });
                s.spawn(|| {
                    let r = build(&ctx, &sh, &steps_b);
                    *slot_b.lock().unwrap() = Some(r);
                });
            });
            let a = slot_a.lock().unwrap().take().expect("thread a ran");
            let b = slot_b.lock().unwrap().take().expect("thread b ran");
            (a, b)
        } else {
            (build(&ctx, &sh, &steps_a), build(&ctx, &sh, &steps_b))
        };
        let mut h = Fnv::new();
        h.u8(u8::from(ra.0));
        h.u8(u8::from(rb.0));
        // finalise in a fixed order: shared leaves, A's nodes, B's nodes
        digest_nodes(&mut h, &sh);
        digest_nodes(&mut h, &ra.1);
        digest_nodes(&mut h, &rb.1);
        h.0
    })
}

fn ill_typed_op(kind: u8) -> u64 {
    type N<'a> = Arc<ConstructNode<'a>>;
    types::Context::with_context(|ctx| {
        let res: Result<(), &'static str> = (|| {
            match kind % 4 {
                0 => {
                    // occurs_check_2 shape: the historical re-entrant lock on the error path
                    let iden = N::iden(&ctx);
                    let dr = N::drop_(&iden);
                    let case = N::case(&iden, &dr).map_err(|_| "ctor")?;
                    case.finalize_types_non_program().map(|_| ()).map_err(|_| "finalize")
                }
                1 => {
                    let unit = N::unit(&ctx);
                    let _ = N::comp(&unit, &unit).map_err(|_| "ctor")?;
                    let tk = N::take(&unit);
                    N::pair(&unit, &tk).map(|_| ()).map_err(|_| "ctor-pair")
                }
                2 => {
                    let w = N::const_word(&ctx, simplicity::Word::u8(7));
                    let i = N::iden(&ctx);
                    let c = N::case(&i, &i).map_err(|_| "ctor")?;
                    N::comp(&w, &c).map(|_| ()).map_err(|_| "ctor-comp")
                }
                _ => {
                    let i = N::iden(&ctx);
                    let d = simplicity::node::DisconnectConstructible::disconnect(&i, &Some(Arc::clone(&i))).map_err(|_| "ctor")?;
                    let d: N = d;
                    d.finalize_types().map(|_| ()).map_err(|_| "finalize")
                }
            }
        })();
        match res {
            Ok(()) => digest_bytes("ill-ok", &[]),
            Err(c) => digest_bytes(c, &[]),
        }
    })
}

/// One operation. `mine[i]` is this thread's reference to shared program i (None once dropped).
fn run_op(op: &Op, shared: &[Shared], mine: &mut [Option<Arc<RedeemNode>>], concurrent: bool) -> u64 {
    let prog = |i: usize| -> Option<(usize, Arc<RedeemNode>)> {
        if mine.is_empty() {
            return None;
        }
        let i = i % mine.len();
        mine[i].as_ref().map(|p| (i, Arc::clone(p)))
    };
    match op {
        Op::Decode(i) => {
            if shared.is_empty() {
                return 0;
            }
            let s = &shared[i % shared.len()];
            match decode(s, &s.program, &s.witness) {
                Ok(p) => redeem_digest(&p),
                Err(e) => digest_bytes(decode_err_class(&e), &[]),
            }
        }
        Op::DecodeFlipped(i, b) => {
            if shared.is_empty() {
                return 0;
            }
            let s = &shared[i % shared.len()];
            let mut p = s.program.clone();
            if !p.is_empty() {
                let bit = b % (p.len() * 8);
                p[bit / 8] ^= 0x80 >> (bit % 8);
            }
            match decode(s, &p, &s.witness) {
                Ok(p) => redeem_digest(&p),
                Err(e) => digest_bytes(decode_err_class(&e), &[]),
            }
        }
        Op::DecodeCommit(i) => {
            if shared.is_empty() {
                return 0;
            }
            let s = &shared[i % shared.len()];
            let r = match s.family {
                Family::Core => CommitNode::decode::<_, Core>(BitIter::new(s.program.iter().copied())),
                Family::Elements => CommitNode::decode::<_, Elements>(BitIter::new(s.program.iter().copied())),
            };
            match r {
                Ok(c) => digest_bytes("commit", &[&c.to_vec_without_witness(), c.cmr().as_ref()]),
                Err(e) => digest_bytes(decode_err_class(&e), &[]),
            }
        }
        Op::Roots(i) => match prog(*i) {
            Some((_, p)) => {
                let mut h = Fnv::new();
                for d in p.as_ref().post_order_iter::<InternalSharing>() {
                    h.bytes(d.node.cmr().as_ref());
                    h.bytes(d.node.ihr().as_ref());
                    h.bytes(d.node.amr().as_ref());
                    h.bytes(d.node.arrow().source.tmr().as_ref());
                    h.bytes(d.node.arrow().target.tmr().as_ref());
                    let b = d.node.bounds();
                    h.u64(b.extra_cells as u64);
                    h.u64(b.extra_frames as u64);
                    if let Inner::Witness(v) = d.node.inner() {
                        h.u64(h64(v));
                    }
                }
                h.0
            }
            None => 1,
        },
        Op::Unfinalize(i) => match prog(*i) {
            Some((_, p)) => match p.unfinalize() {
                Ok(c) => types::Context::with_context(|ctx| match c.unfinalize_types(&ctx) {
                    Ok(cn) => match cn.finalize_types() {
                        Ok(c2) => digest_bytes("refinalized", &[&c2.to_vec_without_witness(), c2.cmr().as_ref()]),
                        Err(_) => digest_bytes("refinalize-err", &[]),
                    },
                    Err(_) => digest_bytes("unfinalize-types-err", &[]),
                }),
                Err(_) => digest_bytes("unfinalize-err", &[]),
            },
            None => 1,
        },
        Op::ToConstruct(i) => match prog(*i) {
            Some((_, p)) => types::Context::with_context(|ctx| {
                let cn = p.to_construct_node(&ctx);
                match cn.finalize_unpruned() {
                    Ok(r) => redeem_digest(&r),
                    Err(_) => digest_bytes("finalize-err", &[]),
                }
            }),
            None => 1,
        },
        Op::Exec(i) | Op::Prune(i) => match prog(*i) {
            Some((idx, p)) => {
                let fam = shared[idx].family;
                let is_prune = matches!(op, Op::Prune(_));
                match fam {
                    Family::Core => {
                        let env = CoreEnv::new();
                        if is_prune {
                            match p.prune(&env) {
                                Ok(q) => redeem_digest(&q),
                                Err(e) => digest_bytes(&exec_class(&e), &[]),
                            }
                        } else {
                            match BitMachine::for_program(&p) {
                                Ok(mut mac) => {
                                    let mut tr = HashTracker(Fnv::new());
                                    match mac.exec_with_tracker(&p, &env, &mut tr) {
                                        Ok(v) => {
                                            let bits: Vec<u8> = v.iter_compact().map(u8::from).collect();
                                            digest_bytes("exec-ok", &[&bits, &tr.0 .0.to_le_bytes()])
                                        }
                                        Err(e) => digest_bytes(&exec_class(&e), &[&tr.0 .0.to_le_bytes()]),
                                    }
                                }
                                Err(_) => digest_bytes("limit", &[]),
                            }
                        }
                    }
                    Family::Elements => {
                        let env = dummy_env();
                        if is_prune {
                            match p.prune(&env) {
                                Ok(q) => redeem_digest(&q),
                                Err(e) => digest_bytes(&exec_class(&e), &[]),
                            }
                        } else {
                            match BitMachine::for_program(&p) {
                                Ok(mut mac) => {
                                    let mut tr = HashTracker(Fnv::new());
                                    match mac.exec_with_tracker(&p, &env, &mut tr) {
                                        Ok(v) => {
                                            let bits: Vec<u8> = v.iter_compact().map(u8::from).collect();
                                            digest_bytes("exec-ok", &[&bits, &tr.0 .0.to_le_bytes()])
                                        }
                                        Err(e) => digest_bytes(&exec_class(&e), &[&tr.0 .0.to_le_bytes()]),
                                    }
                                }
                                Err(_) => digest_bytes("limit", &[]),
                            }
                        }
                    }
                }
            }
            None => 1,
        },
        Op::Build(seed, size, fam) => {
            let mut r = Rng::new(*seed);
            // size >= 1000 encodes "instance (size / 1000) of the template (seed, size % 1000)": the
            // same recipe with the sizes and values of its word constants shifted, i.e. the same
            // combinators (and for the word-free parts the same CMRs) at different types
            let (variant, size) = (*size / 1000, *size % 1000);
            let mut rec = programs::random_recipe(&mut r, *fam, size);
            if variant > 0 {
                for o in rec.ops.iter_mut() {
                    if let programs::GOp::Word(n, v) = o {
                        *n = ((*n as usize + variant) % 7) as u8;
                        *v ^= (variant as u64).wrapping_mul(0x9e37_79b9_7f4a_7c15);
                    }
                }
                rec.wit_seed ^= variant as u64;
            }
            match programs::build(&rec) {
                Some(b) => {
                    let d = redeem_digest(&b.redeem);
                    digest_bytes("build", &[&d.to_le_bytes(), &commit_time_flow(&b.redeem, *fam).to_le_bytes()])
                }
                None => digest_bytes("build-none", &[]),
            }
        }
        Op::IllTyped(k) => ill_typed_op(*k),
        Op::Policy(k) => policy_op(*k),
        Op::Human(k) => human_op(*k),
        Op::Values(s) => values_op(*s),
        Op::TypeTables(s) => type_tables_op(*s),
        Op::SharedContext(s) => shared_context_op(*s, concurrent),
        Op::DropShared(i) => {
            if !mine.is_empty() {
                let i = i % mine.len();
                mine[i] = None;
            }
            2
        }
    }
}

// ------------------------------------------------------------------------------------------
// one shuttle execution

#[derive(Default)]
pub struct IterStats {
    pub iterations: u64,
    pub ops: u64,
    pub interleaved: u64,
    pub order_hashes: Vec<u64>,
    pub mismatch: Option<String>,
}

/// Sequential execution of every thread's op list by one thread.
fn sequential_digests(plan: &Plan) -> Vec<Vec<u64>> {
    let fixtures: Vec<Option<Arc<RedeemNode>>> =
        plan.shared.iter().map(|s| decode(s, &s.program, &s.witness).ok()).collect();
    let mut res = Vec::new();
    for ops in &plan.threads {
        let mut mine = fixtures.clone();
        res.push(
            ops.iter()
                .map(|op| {
                    shuttle::current::reset_step_count();
                    crate::sup::heartbeat();
                    run_op(op, &plan.shared, &mut mine, false)
                })
                .collect(),
        );
    }
    res
}

/// Reference digests: the sequential execution in a single-threaded shuttle execution. Meant to
/// be called in a fresh process (`c20 --reference-of FILE`).
pub fn reference_main(path: &str) -> ! {
    let text = std::fs::read_to_string(path).expect("plan file");
    let plan = Plan::from_json(&serde_json::from_str(&text).expect("plan json"));
    let d = in_shuttle(move || sequential_digests(&plan));
    let j: Vec<Vec<String>> = d.iter().map(|t| t.iter().map(|x| format!("{:016x}", x)).collect()).collect();
    println!("REFERENCE {}", serde_json::to_string(&j).unwrap());
    std::process::exit(0)
}

fn scenario(plan: &Plan, stats: &Arc<StdMutex<IterStats>>, iteration: usize) {
    // Mode A (even iterations): the main simulated thread decodes the shared programs once and
    // hands references to the threads (the sharing discipline of the property).
    // Mode B (odd iterations): nothing is touched before the threads start; every thread decodes
    // its own copies, so first uses of process- or thread-wide state happen concurrently.
    // Mode A' (every fourth iteration): as A, but programs that allow it are handed over as
    // freshly rebuilt objects that nothing has traversed yet.
    let fixtures: Vec<Option<Arc<RedeemNode>>> = if iteration % 2 == 0 {
        plan.shared
            .iter()
            .map(|s| {
                let d = decode(s, &s.program, &s.witness).ok()?;
                if iteration % 4 == 2 && s.rebuild_ok {
                    rebuild(&d).or(Some(d))
                } else {
                    Some(d)
                }
            })
            .collect()
    } else {
        Vec::new()
    };
    // expected digests: from a fresh sequential process when available, otherwise computed here
    let baseline: Vec<Vec<u64>> = match &plan.reference {
        Some(r) => r.clone(),
        None => sequential_digests(plan),
    };
    let baseline = Arc::new(baseline);
    let order: Arc<StdMutex<Vec<u16>>> = Arc::new(StdMutex::new(Vec::new()));
    let shared = Arc::new(plan.shared.clone());
    let mut handles = Vec::new();
    for (t, ops) in plan.threads.iter().enumerate() {
        let ops = ops.clone();
        let mut mine = fixtures.clone();
        let baseline = Arc::clone(&baseline);
        let order = Arc::clone(&order);
        let shared = Arc::clone(&shared);
        handles.push(shuttle::thread::spawn(move || {
            if mine.is_empty() {
                mine = shared.iter().map(|s| decode(s, &s.program, &s.witness).ok()).collect();
            }
            for (k, op) in ops.iter().enumerate() {
                crate::sup::heartbeat();
                let d = run_op(op, &shared, &mut mine, true);
                // an operation finished: progress was made, so the step bound (livelock detector)
                // starts counting again
                shuttle::current::reset_step_count();
                order.lock().unwrap().push(t as u16);
                if d != baseline[t][k] {
                    panic!(
                        "C20 digest mismatch: thread {} op {} {} gave {:016x} concurrently, {:016x} in the sequential reference",
                        t,
                        k,
                        op_json(op),
                        d,
                        baseline[t][k]
                    );
                }
            }
            // remaining references die with the thread
            drop(mine);
        }));
    }
    // the main thread lets go of the shared programs while the others are running
    drop(fixtures);
    for h in handles {
        h.join().expect("simulated thread panicked");
    }
    let order = order.lock().unwrap();
    let mut interleaved = false;
    let mut seen_end = vec![false; plan.threads.len()];
    let mut last: Option<u16> = None;
    for t in order.iter() {
        if Some(*t) != last {
            if seen_end[*t as usize] {
                interleaved = true;
            }
            if let Some(l) = last {
                seen_end[l as usize] = true;
            }
            last = Some(*t);
        }
    }
    let mut h = Fnv::new();
    for t in order.iter() {
        h.u8(*t as u8);
    }
    let mut st = stats.lock().unwrap();
    st.iterations += 1;
    st.ops += order.len() as u64;
    if interleaved {
        st.interleaved += 1;
        st.order_hashes.push(h.0);
    }
}

// ------------------------------------------------------------------------------------------
// generation

/// The one directory shuttle persists failing schedules to in this process.
pub fn persist_dir() -> std::path::PathBuf {
    let d = std::env::temp_dir().join(format!("vshuttle-{}", std::process::id()));
    let _ = std::fs::create_dir_all(&d);
    d
}

fn clear_persist_dir() {
    if let Ok(rd) = std::fs::read_dir(persist_dir()) {
        for e in rd.flatten() {
            let _ = std::fs::remove_file(e.path());
        }
    }
}

/// Run `f` inside a single-threaded shuttle execution. The library is compiled with
/// `verif-shuttle`, so every use of it — workload generation included — has to happen inside
/// an execution.
pub fn in_shuttle<T: Send + 'static>(f: impl FnOnce() -> T + Send + 'static) -> T {
    let slot: Arc<StdMutex<Option<T>>> = Arc::new(StdMutex::new(None));
    let fcell = Arc::new(StdMutex::new(Some(f)));
    let slot2 = Arc::clone(&slot);
    let mut cfg = shuttle::Config::new();
    cfg.stack_size = 8 << 20;
    // shuttle installs its panic hook once per process with the configuration of the FIRST runner,
    // so every runner of this process uses the same persistence directory
    cfg.failure_persistence = shuttle::FailurePersistence::File(Some(persist_dir()));
    cfg.silence_warnings = true;
    cfg.max_steps = shuttle::MaxSteps::None;
    shuttle::Runner::new(RandomScheduler::new_from_seed(0, 1), cfg).run(move || {
        if let Some(f) = fcell.lock().unwrap().take() {
            *slot2.lock().unwrap() = Some(f());
        }
    });
    let v = slot.lock().unwrap().take();
    v.expect("closure ran")
}

fn gen_shared(r: &mut Rng, out: &mut RunOut) -> Vec<Shared> {
    let n = r.urange(1, 3);
    let mut v = Vec::new();
    let mut tries = 0;
    while v.len() < n && tries < 12 {
        tries += 1;
        let family = if r.chance(2, 5) { Family::Elements } else { Family::Core };
        let rec = match r.below(10) {
            0 => {
                // deep node chains (every node dropped through the hook's yield point)
                let n = r.range(500, 8_000) as u32;
                programs::deep_recipe(r, family, n)
            }
            1 => programs::assert_recipe(r, family),
            _ => {
                let size = r.urange(4, 30);
                programs::random_recipe(r, family, size)
            }
        };
        if let Some(b) = programs::build(&rec) {
            let (p, w) = b.redeem.to_vec_with_witness();
            if p.len() < 60_000 {
                let mut sh = Shared { family, program: p, witness: w, rebuild_ok: false };
                sh.rebuild_ok = rebuild_equivalent(&sh);
                if sh.rebuild_ok {
                    out.count("shared_programs_also_shared_fresh", 1);
                }
                v.push(sh);
            }
        }
    }
    if r.chance(1, 6) {
        // a libsimplicity vector (Elements, uses signature / hash jets)
        use simplicity::ffi::tests as t;
        let d = match r.below(3) {
            0 => t::schnorr0_test_data(),
            1 => t::ctx8_pruned_test_data(),
            _ => t::ctx8_unpruned_test_data(),
        };
        let mut sh = Shared { family: Family::Elements, program: d.prog, witness: d.witness, rebuild_ok: false };
        sh.rebuild_ok = rebuild_equivalent(&sh);
        v.push(sh);
        out.count("shared_libsimplicity_vector", 1);
    }
    v
}

fn gen_plan(r: &mut Rng, tier: Tier, out: &mut RunOut) -> Plan {
    let mut shared = gen_shared(r, out);
    let wide = r.chance(1, 8);
    let n_threads = if wide { r.urange(8, 16) } else { r.urange(2, 4) };
    let mut w: [u32; 16] = [5, 3, 3, 5, 4, 4, 6, 5, 4, 3, 2, 2, 3, 4, 4, 5];
    let mut policy_kind: Option<u8> = None;
    let mut build_template: Option<(u64, usize)> = None;
    for x in w.iter_mut() {
        if r.chance(1, 5) {
            *x = 0;
        }
    }
    if w.iter().all(|x| *x == 0) {
        w[0] = 1;
    }
    // storms: every thread runs operations of ONE kind, so that whatever process-wide state that
    // entry point keeps is hit by a crowd (policy satisfaction with differing satisfiers, execution,
    // pruning, decoding, roots, human encoding, building, values)
    // (VERIF_C20_STORM=<op index> forces storms of one kind: an experimenter's switch, unused by checks)
    let forced: Option<usize> = std::env::var("VERIF_C20_STORM").ok().and_then(|s| s.parse().ok());
    if r.chance(1, 3) || forced.is_some() {
        let fam = forced.unwrap_or(*r.pick(&[10usize, 10, 10, 8, 8, 8, 6, 7, 7, 0, 3, 11, 12]));
        w = [0; 16];
        w[fam] = 1;
        out.count("storm_workloads", 1);
        if fam == 10 {
            // one policy template, many satisfiers
            policy_kind = Some(*r.pick(&[7u8, 8, 9, 3, 4, 7, 9]));
        }
        if fam == 6 || fam == 7 {
            // one shared program full of two-sided case nodes: every execution takes a branch of
            // each, every prune rewrites each — on the same shared object from all threads
            for _ in 0..10 {
                let fam_ = if r.bool() { Family::Core } else { Family::Elements };
                let rec = programs::case_recipe(r, fam_);
                if let Some(b) = programs::build(&rec) {
                    let (p, w) = b.redeem.to_vec_with_witness();
                    let mut sh = Shared { family: fam_, program: p, witness: w, rebuild_ok: false };
                    sh.rebuild_ok = rebuild_equivalent(&sh);
                    shared = vec![sh];
                    out.count("storm_case_programs", 1);
                    break;
                }
            }
        }
        if fam == 8 {
            // one program template (a recipe with at least one word constant), many instances at
            // different word sizes: same combinators and commitment roots of the word-free parts,
            // different types, built, finalised and dropped over and over
            for _ in 0..40 {
                let seed = r.next_u64();
                let size = r.urange(4, 12);
                let rec = programs::random_recipe(&mut Rng::new(seed), Family::Core, size);
                if rec.ops.iter().any(|o| matches!(o, programs::GOp::Word(..))) && in_shuttle(move || programs::build(&rec).is_some()) {
                    build_template = Some((seed, size));
                    break;
                }
            }
        }
    }
    let ns = shared.len().max(1);
    let mut threads = Vec::new();
    for _ in 0..n_threads {
        let n_ops = if wide { r.urange(1, 3) } else { r.urange(3, 10) };
        let mut ops = Vec::new();
        for _ in 0..n_ops {
            ops.push(match r.weighted(&w) {
                0 => Op::Decode(r.usize_below(ns)),
                1 => Op::DecodeFlipped(r.usize_below(ns), r.usize_below(4096)),
                2 => Op::DecodeCommit(r.usize_below(ns)),
                3 => Op::Roots(r.usize_below(ns)),
                4 => Op::Unfinalize(r.usize_below(ns)),
                5 => Op::ToConstruct(r.usize_below(ns)),
                6 => Op::Exec(r.usize_below(ns)),
                7 => Op::Prune(r.usize_below(ns)),
                8 => match build_template {
                    Some((seed, size)) => Op::Build(seed, size + 1000 * r.urange(0, 6), Family::Core),
                    None => Op::Build(r.next_u64(), r.urange(3, 14), if r.bool() { Family::Core } else { Family::Elements }),
                },
                9 => Op::IllTyped(r.byte()),
                10 => match policy_kind {
                    Some(k) => Op::Policy(k + 10 * r.below(25) as u8),
                    None => Op::Policy(r.byte()),
                },
                11 => Op::Human(r.usize_below(8)),
                12 => Op::Values(r.next_u64()),
                13 => Op::DropShared(r.usize_below(ns)),
                14 => Op::TypeTables(r.next_u64()),
                _ => Op::SharedContext(r.next_u64()),
            });
        }
        threads.push(ops);
    }
    let scheduler = match r.below(3) {
        0 => "random".to_owned(),
        1 => "pct:2".to_owned(),
        _ => "pct:3".to_owned(),
    };
    Plan {
        shared,
        threads,
        scheduler,
        sched_seed: r.next_u64(),
        iterations: tier.pick(12, 40),
        schedule: None,
        reference: None,
    }
}

// ------------------------------------------------------------------------------------------

fn panic_text(p: Box<dyn std::any::Any + Send>) -> String {
    if let Some(s) = p.downcast_ref::<&str>() {
        (*s).to_owned()
    } else if let Some(s) = p.downcast_ref::<String>() {
        s.clone()
    } else {
        "<non-string panic>".to_owned()
    }
}

/// Run the plan's op lists sequentially in a fresh process and return the digests.
fn fresh_process_reference(plan: &Plan) -> Result<Vec<Vec<u64>>, String> {
    let path = std::env::temp_dir().join(format!("vshuttle-ref-{}-{:016x}.json", std::process::id(), plan.hash()));
    let mut p = plan.clone();
    p.schedule = None;
    std::fs::write(&path, p.to_json().to_string()).map_err(|e| format!("write plan: {}", e))?;
    let exe = std::env::current_exe().map_err(|e| e.to_string())?;
    let out = std::process::Command::new(exe).arg("--reference-of").arg(&path).output().map_err(|e| e.to_string());
    let _ = std::fs::remove_file(&path);
    let out = out?;
    let text = String::from_utf8_lossy(&out.stdout);
    let line = text.lines().find_map(|l| l.strip_prefix("REFERENCE "));
    match line {
        Some(l) if out.status.success() => {
            let j: Vec<Vec<String>> = serde_json::from_str(l).map_err(|e| e.to_string())?;
            Ok(j.iter().map(|t| t.iter().filter_map(|d| u64::from_str_radix(d, 16).ok()).collect()).collect())
        }
        _ => {
            let err = String::from_utf8_lossy(&out.stderr);
            let tail: String = err.chars().rev().take(400).collect::<String>().chars().rev().collect();
            Err(format!("sequential reference run in a fresh process failed ({:?}): {}", out.status, tail))
        }
    }
}

fn shuttle_config(dir: &std::path::Path) -> shuttle::Config {
    let mut c = shuttle::Config::new();
    // 2 MiB per simulated thread (the default stack of a std thread): a recursive drop of a
    // shared DAG a few ten thousand nodes deep overflows it, secp256k1 and the C evaluator fit
    c.stack_size = TASK_STACK;
    c.failure_persistence = shuttle::FailurePersistence::File(Some(dir.to_path_buf()));
    c.max_steps = shuttle::MaxSteps::FailAfter(20_000_000);
    c.silence_warnings = true;
    c
}

fn violation_key(msg: &str) -> (&'static str, String) {
    if msg.contains("C20 digest mismatch") {
        let op = msg.split("op ").nth(1).and_then(|s| s.split('"').nth(1)).unwrap_or("?");
        ("digest-mismatch", format!("op:{}", op))
    } else if msg.contains("deadlock") {
        ("deadlock", "shuttle-deadlock".into())
    } else if msg.contains("exceeded max_steps") || msg.contains("max_steps") {
        ("livelock", "max-steps".into())
    } else {
        let stem: String = msg.chars().filter(|c| !c.is_ascii_digit()).take(70).collect();
        ("panic", stem)
    }
}

impl C20 {
    pub fn exec_plan(&self, plan: &Plan, out: &mut RunOut) {
        out.trace(|| plan.to_json());
        let stats = Arc::new(StdMutex::new(IterStats::default()));
        let dir = persist_dir();
        clear_persist_dir();
        let cfg = shuttle_config(&dir);
        // reference digests from a fresh sequential process (unless the plan carries them)
        let mut plan_with_ref = plan.clone();
        if plan_with_ref.reference.is_none() {
            match fresh_process_reference(plan) {
                Ok(r) => plan_with_ref.reference = Some(r),
                Err(msg) => {
                    out.eval(plan.hash(), false);
                    out.violation("reference-run-failed", "sequential-reference", msg, || plan.to_json());
                    return;
                }
            }
        }
        let plan = &plan_with_ref;
        let p = Arc::new(plan.clone());
        let st2 = Arc::clone(&stats);
        let counter = Arc::new(std::sync::atomic::AtomicUsize::new(0));
        // Each search runs on a fresh OS thread: shuttle remembers, per OS thread, the length of the
        // last schedule it persisted and silently skips persisting another failing schedule of the
        // same length, which would lose the schedule of every later failure in this process.
        let result = std::thread::scope(|sc| {
            std::thread::Builder::new()
                .stack_size(64 << 20)
                .spawn_scoped(sc, || {
        std::panic::catch_unwind(std::panic::AssertUnwindSafe(|| {
            let f = move || {
                let it = counter.fetch_add(1, std::sync::atomic::Ordering::Relaxed);
                scenario(&p, &st2, it)
            };
            if let Some(s) = &plan.schedule {
                // same configuration as the search (shuttle::replay would use a 60 KiB stack)
                let sch = ReplayScheduler::new_from_encoded(s);
                shuttle::Runner::new(sch, cfg).run(f);
            } else if let Some(d) = plan.scheduler.strip_prefix("pct:") {
                let depth: usize = d.parse().unwrap_or(2);
                let sch = PctScheduler::new_from_seed(plan.sched_seed, depth, plan.iterations);
                shuttle::Runner::new(sch, cfg).run(f);
            } else {
                let sch = RandomScheduler::new_from_seed(plan.sched_seed, plan.iterations);
                shuttle::Runner::new(sch, cfg).run(f);
            }
        }))
                })
                .expect("spawn search thread")
                .join()
                .unwrap_or_else(Err)
        });
        let st = stats.lock().unwrap_or_else(|e| e.into_inner());
        for h in &st.order_hashes {
            out.eval(*h ^ plan.hash(), true);
        }
        for _ in 0..(st.iterations.saturating_sub(st.order_hashes.len() as u64)) {
            out.eval(0, false);
        }
        out.count("schedules_executed", st.iterations);
        out.count("schedules_interleaved", st.interleaved);
        out.count("operations_executed_concurrently", st.ops);
        out.count(&format!("scheduler_{}", plan.scheduler.replace(':', "_depth")), 1);
        out.count(&format!("threads_{:02}", plan.threads.len()), 1);
        for t in &plan.threads {
            for op in t {
                let name = op_json(op)[0].as_str().unwrap_or("?").to_owned();
                out.count(&format!("op_{}", name), 1);
            }
        }
        if let Err(p) = result {
            let msg = panic_text(p);
            // the schedule shuttle persisted for the failing execution
            let mut schedule = None;
            if let Ok(rd) = std::fs::read_dir(&dir) {
                let mut files: Vec<_> = rd.filter_map(|e| e.ok()).map(|e| e.path()).collect();
                files.sort();
                if let Some(f) = files.last() {
                    schedule = std::fs::read_to_string(f).ok();
                }
            }
            let (class, key) = violation_key(&msg);
            let mut failing = plan.clone();
            failing.schedule = schedule.or_else(|| plan.schedule.clone());
            // replay recomputes the sequential reference in a fresh process from the code under test
            failing.reference = None;
            let msg = format!("{} [schedule persisted by shuttle: {} chars]", msg, failing.schedule.as_ref().map(|s| s.len()).unwrap_or(0));
            out.violation(class, &key, msg, || failing.to_json());
        }
        clear_persist_dir();
    }
}

impl Engine for C20 {
    fn property_id(&self) -> String {
        "C20".into()
    }
    fn engine_name(&self) -> String {
        "c20-shuttle-sim".into()
    }
    fn level(&self) -> &'static str {
        "exploration"
    }
    fn rule(&self) -> String {
        "A run is one seeded workload: 1-3 shared programs (generated Core/Elements redemption programs, deep node chains, assertion-heavy \
         programs, libsimplicity vectors) and 2-4 simulated threads of 3-10 ops (or 8-16 threads of 1-3 ops) drawn from decode, decode of a \
         bit-flipped encoding, commitment-time decode, root/bounds walk over a shared program, unfinalize + re-finalise in a fresh context, \
         to_construct_node + finalize_unpruned, execution with C jets, prune, building a program from a recipe (type inference in own \
         contexts), ill-typed constructions (error paths of the context mutex), policy compile/satisfy/execute with deterministic keys, \
         human-encoding parse/serialise, value construct/compare/hash, touching the lazily initialised type tables, building over \
         shared nodes with two extra threads in ONE inference context, and dropping the thread's reference to a shared program. The \
         workload is executed under shuttle's seeded RandomScheduler or PctScheduler (depth 2-3) for a number of schedules (even \
         iterations: main thread decodes the shared programs first; odd iterations: nothing runs before the threads start); in every \
         schedule each operation's digest (for executions: including the output bits of every node) must equal its digest from a \
         sequential run of the same operations in a FRESH process. An evaluation \
         is one schedule; non-trivial = the observed global completion order is not a concatenation of per-thread orders; distinct = \
         distinct (workload, observed completion order)."
            .into()
    }
    fn assumptions(&self) -> Vec<String> {
        vec![
            format!(
                "shuttle interleaves only at the primitives it owns: {}; thread spawn/join and the hook yield points in the iterative drops; an FFI call into libsimplicity/secp256k1 is one atomic step",
                if std::env::var("VERIF_SHUTTLE_SOURCES").as_deref() == Ok("plain") {
                    "the hand-twinned ones (context Mutex, NEXT_ID, thread-local type tables) — this build used /repo/src as it is because the copy with redirected std primitives did not compile"
                } else {
                    "every std::sync Mutex / RwLock / Condvar / Once / Barrier / mpsc / atomic and every thread_local! in the library's Rust sources (this build compiled a copy of /repo/src with those redirected to shuttle's twins, regenerated from the working tree)"
                }
            ),
            "std::sync::Arc reference counting itself is not modelled (shuttle::sync::Arc is std's Arc); OnceLock in node/display.rs stays std's".into(),
            "error text is excluded from digests (free-variable names carry the global counter by design); error class is compared".into(),
            "the Miri leg (separate binary, jet-free workloads) covers unsynchronised accesses that shuttle cannot see".into(),
        ]
    }
    fn components(&self) -> Json {
        json!({
            "real": ["all of simplicity-lang compiled from /repo with feature verif-shuttle", "simplicity-sys C code (jets, environment, allocator shims) as atomic steps"],
            "stub": ["std::sync::{Mutex, RwLock, Condvar, Once, Barrier, mpsc, atomic::*}, thread_local!, thread::spawn/join = shuttle's (textual redirection of a copy of /repo/src at check time; hand-twinned imports in types/context.rs, variable.rs, precomputed.rs)", "scheduler: seeded RandomScheduler / PctScheduler"],
            "model": ["sequential execution of the same operations in a fresh process"],
        })
    }
    fn n_runs(&self, tier: Tier) -> u64 {
        tier.pick(300, 3_000)
    }
    fn worker_stack(&self) -> usize {
        64 << 20
    }
    fn hang_secs(&self) -> u64 {
        // wall clock is only a failure detector; generous, because one schedule of a heavy
        // workload can take seconds on a loaded machine (operations send heartbeats)
        600
    }
    fn run(&self, _run: u64, seed: u64, tier: Tier, out: &mut RunOut) {
        let (plan, gen_out) = in_shuttle(move || {
            let mut r = Rng::new(seed);
            let mut o = RunOut::new(false);
            let p = gen_plan(&mut r, tier, &mut o);
            (p, o)
        });
        out.merge_from(gen_out);
        out.sample(|| {
            let mut j = plan.to_json();
            // keep samples readable
            if let Some(a) = j["shared"].as_array_mut() {
                for s in a.iter_mut() {
                    let l = s["program_hex"].as_str().map(|x| x.len() / 2).unwrap_or(0);
                    s["program_hex"] = json!(format!("<{} bytes>", l));
                }
            }
            j
        });
        self.exec_plan(&plan, out);
    }
    fn replay(&self, plan: &Json, out: &mut RunOut) {
        self.exec_plan(&Plan::from_json(plan), out);
    }
    fn shrink(&self, plan: &Json) -> Vec<Json> {
        // workload shrinking with the scheduler seed kept; the persisted schedule is dropped because
        // it no longer fits a smaller workload (the search is re-run with the same seed)
        let mut p = Plan::from_json(plan);
        p.schedule = None;
        // the reference digests belong to the un-shrunk workload: recomputed for every candidate
        p.reference = None;
        let mut c: Vec<Plan> = Vec::new();
        for t in 0..p.threads.len() {
            if p.threads.len() > 1 {
                let mut q = p.clone();
                q.threads.remove(t);
                c.push(q);
            }
        }
        for t in 0..p.threads.len() {
            for k in (0..p.threads[t].len()).rev() {
                let mut q = p.clone();
                q.threads[t].remove(k);
                c.push(q);
            }
        }
        c.into_iter().map(|q| q.to_json()).collect()
    }
    fn expected_probes(&self, _tier: Tier) -> Vec<&'static str> {
        vec![
            "schedules_interleaved",
            "storm_workloads",
            "op_exec",
            "op_prune",
            "op_policy",
            "op_build",
            "op_ill_typed",
            "op_drop_shared",
            "op_decode",
            "op_unfinalize",
            "scheduler_pct_depth2",
            "scheduler_random",
        ]
    }
}

#[allow(dead_code)]
fn _unused(_: Cmr) {}
