//! Observation (NOT a finding against C04, see DESIGN.md, false alarm 9): an inference context that
//! has seen a failed constructor is left with the part of the failed node's equations that was
//! applied before the clash. Reproducer against the public API (drop into tests/ of the repo):
//! without the failed `case` every node below is rejected as infinitely typed (iden : X -> X with
//! X = A × X through the shared `iden`); after the failed `case` the same nodes finalise, e.g.
//! iden : 2^256 -> 2^256 and pair(drop iden, iden) : 2^512 -> 2^512 although its children are
//! 2^512 -> 2^256 and 2^256 -> 2^256.
use simplicity::node::{ConstructNode, CoreConstructible, DisconnectConstructible};
use simplicity::types;
use std::sync::Arc;

type N<'a> = Arc<ConstructNode<'a>>;

#[test]
fn context_after_failed_constructor() {
    for with_failed_case in [false, true] {
        types::Context::with_context(|ctx| {
            let n0 = N::iden(&ctx);
            let n1 = N::drop_(&n0);
            let n2 = N::pair(&n1, &n0).unwrap();
            let _n3 = N::pair(&n1, &n1).unwrap();
            let _n4 = N::disconnect(&n1, &None).unwrap();
            let _n5 = N::take(&n1);
            let _n6 = N::disconnect(&n1, &Some(Arc::clone(&n1))).unwrap();
            if with_failed_case {
                // "failed to apply bound `2^128` to existing bound `2^256`"
                assert!(N::case(&n1, &n2).is_err());
            }
            println!("failed case before: {}; iden finalises: {}; pair arrow finalises: {:?}",
                with_failed_case,
                n0.finalize_types_non_program().is_ok(),
                n2.arrow().finalize().map(|a| a.to_string()).map_err(|_| "infinitely-sized"));
        });
    }
}
