#!/usr/bin/env bash
# mkshadow.sh [rewrite|plain]
# Generates /verif/shadow/Cargo.toml from /repo/Cargo.toml: same package name and features, the
# [workspace] section removed, simplicity-sys referenced by absolute path, and the optional `shuttle`
# dependency added behind the feature `verif-shuttle`. /repo's own Cargo.toml and Cargo.lock stay
# untouched.
#   plain   : [lib] path points at /repo/src/lib.rs (only the hand-twinned imports of the hook
#             commit are owned by shuttle)
#   rewrite : (default) /repo/src is copied to /verif/shadow/src and every use of
#             std::sync::{Mutex, RwLock, Condvar, Once, Barrier, mpsc, atomic::*} and thread_local!
#             in files that are not hand-twinned is textually redirected to shuttle's twins, so that
#             synchronisation a change to /repo introduces with std primitives — in whatever file —
#             has scheduling points too. The copy is regenerated from /repo's working tree on every
#             check. `check` falls back to `plain` if the rewritten tree does not build.
set -eu
HERE="$(cd "$(dirname "${BASH_SOURCE[0]}")" && pwd)"
MODE="${1:-rewrite}"
mkdir -p "$HERE/shadow"
if [ "$MODE" = rewrite ]; then
  mkdir -p "$HERE/shadow/src"
  rsync -a --delete /repo/src/ "$HERE/shadow/src/"
  LIBPATH="$HERE/shadow/src/lib.rs"
else
  rm -rf "$HERE/shadow/src"
  LIBPATH="/repo/src/lib.rs"
fi
python3 - "$HERE/shadow/Cargo.toml" "$LIBPATH" "$MODE" "$HERE/shadow/src" <<'PY'
import os, re, sys
out, libpath, mode, srcdir = sys.argv[1:5]
src = open('/repo/Cargo.toml').read()
# drop the [workspace] section (up to the next top-level section)
src = re.sub(r'(?ms)^\[workspace\].*?(?=^\[)', '', src)
src = src.replace('path = "src/lib.rs"', 'path = "%s"' % libpath)
src = src.replace('path = "./simplicity-sys"', 'path = "/repo/simplicity-sys"')
if 'verif-shuttle' not in src:
    sys.exit("HARNESS-ERROR: /repo/Cargo.toml does not declare the verif-shuttle feature (hook commit missing?)")
# feature gains the dependency; dependency is optional
src = re.sub(r'(?m)^verif-shuttle\s*=\s*\[(.*?)\]', lambda m: 'verif-shuttle = [%s, "dep:shuttle"]' % m.group(1), src)
src = src.replace('[dependencies]\n', '[dependencies]\nshuttle = { version = "0.9.3", optional = true }\n', 1)
open(out, 'w').write(src)

if mode != 'rewrite':
    sys.exit(0)

SYNC = {'Mutex', 'MutexGuard', 'RwLock', 'RwLockReadGuard', 'RwLockWriteGuard', 'Condvar', 'Once', 'Barrier', 'mpsc', 'atomic'}
NAMES = 'Mutex|MutexGuard|RwLock|RwLockReadGuard|RwLockWriteGuard|Condvar|Once|Barrier|mpsc|atomic'

def split_top(s):
    items, depth, cur = [], 0, ''
    for ch in s:
        if ch == '{': depth += 1
        if ch == '}': depth -= 1
        if ch == ',' and depth == 0:
            items.append(cur); cur = ''
        else:
            cur += ch
    if cur.strip(): items.append(cur)
    return [i.strip() for i in items if i.strip()]

def head(item):
    return re.split(r'[:\s{]', item.strip(), 1)[0]

GROUP = re.compile(r'(?m)^([ \t]*)((?:pub(?:\([a-z:\s]+\))?\s+)?)use\s+std::sync::\{((?:[^{}]|\{[^{}]*\})*)\};')

def rewrite(text):
    def grp(m):
        ind, vis, inner = m.group(1), m.group(2), m.group(3)
        items = split_top(inner)
        sh = [i for i in items if head(i) in SYNC]
        st = [i for i in items if head(i) not in SYNC]
        if not sh:
            return m.group(0)
        lines = []
        if st:
            lines.append('%s%suse std::sync::{%s};' % (ind, vis, ', '.join(st)))
        lines.append('%s%suse shuttle::sync::{%s};' % (ind, vis, ', '.join(sh)))
        return '\n'.join(lines)
    text = GROUP.sub(grp, text)
    text = re.sub(r'\b(?:::)?std::sync::(%s)\b' % NAMES, r'shuttle::sync::\1', text)
    if 'use shuttle::thread_local' not in text:
        text = re.sub(r'(?<![:\w])(?:std::)?thread_local!', 'shuttle::thread_local!', text)
    return text

n_files = n_changed = 0
for root, _, files in os.walk(srcdir):
    for f in files:
        if not f.endswith('.rs'):
            continue
        p = os.path.join(root, f)
        t = open(p).read()
        n_files += 1
        # hand-twinned files (hook commit) and the hook module itself stay as they are
        if 'cfg(not(feature = "verif-shuttle"))' in t or p.endswith('/verif.rs'):
            continue
        t2 = rewrite(t)
        if t2 != t:
            open(p, 'w').write(t2)
            n_changed += 1
print("shadow sources: %d files, %d with std synchronisation redirected to shuttle" % (n_files, n_changed))
PY
