#!/usr/bin/env bash
# Generates /verif/shadow/Cargo.toml from /repo/Cargo.toml: same package name and features, but
# [lib] path points at /repo/src/lib.rs, simplicity-sys is referenced by absolute path, the
# [workspace] section is removed, and the optional `shuttle` dependency is added behind the
# feature `verif-shuttle`. /repo's own Cargo.toml and Cargo.lock stay untouched.
set -eu
HERE="$(cd "$(dirname "${BASH_SOURCE[0]}")" && pwd)"
mkdir -p "$HERE/shadow"
python3 - "$HERE/shadow/Cargo.toml" <<'PY'
import re, sys
src = open('/repo/Cargo.toml').read()
# drop the [workspace] section (up to the next top-level section)
src = re.sub(r'(?ms)^\[workspace\].*?(?=^\[)', '', src)
src = src.replace('path = "src/lib.rs"', 'path = "/repo/src/lib.rs"')
src = src.replace('path = "./simplicity-sys"', 'path = "/repo/simplicity-sys"')
if 'verif-shuttle' not in src:
    sys.exit("HARNESS-ERROR: /repo/Cargo.toml does not declare the verif-shuttle feature (hook commit missing?)")
# feature gains the dependency; dependency is optional
src = re.sub(r'(?m)^verif-shuttle\s*=\s*\[(.*?)\]', lambda m: 'verif-shuttle = [%s, "dep:shuttle"]' % m.group(1), src)
src = src.replace('[dependencies]\n', '[dependencies]\nshuttle = { version = "0.9.3", optional = true }\n', 1)
# a build script or readme relative paths are not used by this package
open(sys.argv[1], 'w').write(src)
PY
