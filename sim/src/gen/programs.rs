//! Seeded generation of valid redemption programs (see DESIGN.md Appendix D).
//!
//! A recipe is a list of stack-machine ops. It is built in a context that holds only its own
//! nodes; when a constructor fails the op is marked as skipped and the whole recipe is rebuilt in
//! a fresh context, so no corpus program ever lives in a polluted inference context.

use crate::gen::values::random_value;
use crate::rng::Rng;
use simplicity::jet::{Core, Elements, Jet};
use simplicity::node::{CoreConstructible, DisconnectConstructible, WitnessConstructible};
use simplicity::types::{self, Final};
use simplicity::{Cmr, CommitNode, ConstructNode, FailEntropy, RedeemNode, Value, Word};
use std::sync::Arc;

#[derive(Clone, Copy, Debug, PartialEq, Eq)]
pub enum Family {
    Core,
    Elements,
}

impl Family {
    pub fn name(self) -> &'static str {
        match self {
            Family::Core => "core",
            Family::Elements => "elements",
        }
    }
    pub fn from_name(s: &str) -> Family {
        if s == "elements" {
            Family::Elements
        } else {
            Family::Core
        }
    }
    pub fn n_jets(self) -> usize {
        match self {
            Family::Core => Core::ALL.len(),
            Family::Elements => Elements::ALL.len(),
        }
    }
}

#[derive(Clone, Debug, PartialEq)]
pub enum GOp {
    Unit,
    Iden,
    Witness,
    Fail(u8),
    /// word of 2^n bits, n <= 16
    Word(u8, u64),
    /// bare jet leaf
    Jet(usize),
    /// comp(witness, jet): the witness supplies the jet's input
    JetApplied(usize),
    InjL,
    InjR,
    Take,
    Drop,
    Comp,
    Case,
    Pair,
    AssertL(u8),
    AssertR(u8),
    /// disconnect(left = second from top, right = top)
    Disconnect,
    /// copy the k-th item from the top (sharing)
    Over(usize),
    Swap,
    /// x -> pair(x, x), k times
    Bomb(u8),
    /// x -> pair(take x, drop x), k times: squares the SOURCE type each time
    SquareSrc(u8),
    /// repeat a unary op n times (deep nesting)
    Rep(Box<GOp>, u32),
    /// comp(top, top) n times: t := comp(t, iden-like) chains
    CompChain(u32),
}

#[derive(Clone, Copy, Debug, PartialEq, Eq)]
pub enum Close {
    /// comp(witness, comp(e, unit)) — the witness is the first node in post-order
    Early,
    /// comp(pair(comp(w0, e), comp(w1, jet 2^8 -> 2^8)), unit) — a non-empty witness comes after e
    Late,
}

#[derive(Clone, Debug)]
pub struct Recipe {
    pub family: Family,
    pub ops: Vec<GOp>,
    pub close: Close,
    pub wit_seed: u64,
}

type N<'b> = Arc<ConstructNode<'b>>;

fn word_of(n: u8, v: u64, r: &mut Rng) -> Word {
    match n {
        0 => Word::u1((v & 1) as u8),
        1 => Word::u2((v & 3) as u8),
        2 => Word::u4((v & 15) as u8),
        3 => Word::u8(v as u8),
        4 => Word::u16(v as u16),
        5 => Word::u32(v as u32),
        6 => Word::u64(v),
        _ => {
            // larger words: decode 2^n random bits
            let n = n.min(16);
            let bytes = r.bytes((1usize << n) / 8);
            let mut it = simplicity::BitIter::new(bytes.into_iter());
            Word::from_bits(&mut it, u32::from(n)).expect("enough bits")
        }
    }
}

fn jet_node<'b>(ctx: &types::Context<'b>, family: Family, idx: usize) -> N<'b> {
    match family {
        Family::Core => N::jet(ctx, &Core::ALL[idx % Core::ALL.len()]),
        Family::Elements => N::jet(ctx, &Elements::ALL[idx % Elements::ALL.len()]),
    }
}

/// An 8-bit-to-8-bit jet of the family, used to force a witness to have a non-empty type.
fn byte_jet<'b>(ctx: &types::Context<'b>, family: Family) -> N<'b> {
    match family {
        Family::Core => N::jet(ctx, &Core::Complement8),
        Family::Elements => N::jet(ctx, &Elements::Complement8),
    }
}

/// Symbolic expression node: the recipe is first turned into a DAG of these, and only the nodes
/// reachable from the root are ever constructed, so that the inference context of a corpus
/// program holds exactly its own nodes (an abandoned sibling would constrain shared type
/// variables — the carve-out of C01 — and the encoding would no longer describe the program).
#[derive(Clone, Debug, PartialEq)]
pub enum EOp {
    Unit,
    Iden,
    Witness,
    Fail(u8),
    Word(u8, u64),
    Jet(usize),
    ByteJet,
    InjL,
    InjR,
    Take,
    Drop,
    Comp,
    Case,
    Pair,
    AssertL(u8),
    AssertR(u8),
    Disconnect,
    /// replaced by its first child after a failed construction
    Alias,
}

#[derive(Clone, Debug)]
pub struct ENode {
    pub op: EOp,
    pub kids: Vec<usize>,
}

pub struct Symbolic {
    pub nodes: Vec<ENode>,
    pub root: usize,
}

fn symbolic(recipe: &Recipe) -> Symbolic {
    let mut nodes: Vec<ENode> = Vec::new();
    let mut stack: Vec<usize> = Vec::new();
    fn add(nodes: &mut Vec<ENode>, op: EOp, kids: Vec<usize>) -> usize {
        nodes.push(ENode { op, kids });
        nodes.len() - 1
    }
    fn apply(op: &GOp, nodes: &mut Vec<ENode>, stack: &mut Vec<usize>) {
        match op {
            GOp::Unit => stack.push(add(nodes, EOp::Unit, vec![])),
            GOp::Iden => stack.push(add(nodes, EOp::Iden, vec![])),
            GOp::Witness => stack.push(add(nodes, EOp::Witness, vec![])),
            GOp::Fail(b) => stack.push(add(nodes, EOp::Fail(*b), vec![])),
            GOp::Word(n, v) => stack.push(add(nodes, EOp::Word(*n, *v), vec![])),
            GOp::Jet(i) => stack.push(add(nodes, EOp::Jet(*i), vec![])),
            GOp::JetApplied(i) => {
                let w = add(nodes, EOp::Witness, vec![]);
                let j = add(nodes, EOp::Jet(*i), vec![]);
                stack.push(add(nodes, EOp::Comp, vec![w, j]))
            }
            GOp::InjL | GOp::InjR | GOp::Take | GOp::Drop | GOp::AssertL(_) | GOp::AssertR(_) => {
                if let Some(c) = stack.pop() {
                    let e = match op {
                        GOp::InjL => EOp::InjL,
                        GOp::InjR => EOp::InjR,
                        GOp::Take => EOp::Take,
                        GOp::Drop => EOp::Drop,
                        GOp::AssertL(b) => EOp::AssertL(*b),
                        GOp::AssertR(b) => EOp::AssertR(*b),
                        _ => unreachable!(),
                    };
                    stack.push(add(nodes, e, vec![c]))
                }
            }
            GOp::Comp | GOp::Case | GOp::Pair | GOp::Disconnect => {
                if stack.len() >= 2 {
                    let rgt = stack.pop().unwrap();
                    let lft = stack.pop().unwrap();
                    let e = match op {
                        GOp::Comp => EOp::Comp,
                        GOp::Case => EOp::Case,
                        GOp::Pair => EOp::Pair,
                        _ => EOp::Disconnect,
                    };
                    stack.push(add(nodes, e, vec![lft, rgt]))
                }
            }
            GOp::Over(k) => {
                if *k < stack.len() {
                    let x = stack[stack.len() - 1 - k];
                    stack.push(x)
                }
            }
            GOp::Swap => {
                let n = stack.len();
                if n >= 2 {
                    stack.swap(n - 1, n - 2)
                }
            }
            GOp::Bomb(k) => {
                if let Some(mut x) = stack.pop() {
                    for _ in 0..*k {
                        x = add(nodes, EOp::Pair, vec![x, x]);
                    }
                    stack.push(x)
                }
            }
            GOp::SquareSrc(k) => {
                if let Some(mut x) = stack.pop() {
                    for _ in 0..*k {
                        let t = add(nodes, EOp::Take, vec![x]);
                        let d = add(nodes, EOp::Drop, vec![x]);
                        x = add(nodes, EOp::Pair, vec![t, d]);
                    }
                    stack.push(x)
                }
            }
            GOp::Rep(inner, n) => {
                for _ in 0..*n {
                    apply(inner, nodes, stack);
                }
            }
            GOp::CompChain(n) => {
                if let Some(mut x) = stack.pop() {
                    for _ in 0..*n {
                        let i = add(nodes, EOp::Iden, vec![]);
                        x = add(nodes, EOp::Comp, vec![x, i]);
                    }
                    stack.push(x)
                }
            }
        }
    }
    for op in &recipe.ops {
        apply(op, &mut nodes, &mut stack);
    }
    // fold what is left on the stack into one expression, so that few generated ops are wasted
    let mut fold = recipe.wit_seed;
    while stack.len() > 1 {
        let rgt = stack.pop().unwrap();
        let lft = stack.pop().unwrap();
        let op = if fold & 3 == 0 { EOp::Comp } else { EOp::Pair };
        fold >>= 2;
        stack.push(add(&mut nodes, op, vec![lft, rgt]));
    }
    let e = match stack.pop() {
        Some(e) => e,
        None => add(&mut nodes, EOp::Unit, vec![]),
    };
    let root = match recipe.close {
        Close::Early => {
            let w = add(&mut nodes, EOp::Witness, vec![]);
            let u = add(&mut nodes, EOp::Unit, vec![]);
            let eu = add(&mut nodes, EOp::Comp, vec![e, u]);
            add(&mut nodes, EOp::Comp, vec![w, eu])
        }
        Close::Late => {
            let w0 = add(&mut nodes, EOp::Witness, vec![]);
            let l = add(&mut nodes, EOp::Comp, vec![w0, e]);
            let w1 = add(&mut nodes, EOp::Witness, vec![]);
            let j = add(&mut nodes, EOp::ByteJet, vec![]);
            let rr = add(&mut nodes, EOp::Comp, vec![w1, j]);
            let p = add(&mut nodes, EOp::Pair, vec![l, rr]);
            let u = add(&mut nodes, EOp::Unit, vec![]);
            add(&mut nodes, EOp::Comp, vec![p, u])
        }
    };
    Symbolic { nodes, root }
}

/// Indices reachable from the root (children are always created before parents, so ascending
/// index order is a valid construction order).
fn reachable(sym: &Symbolic) -> Vec<bool> {
    let mut seen = vec![false; sym.nodes.len()];
    let mut stack = vec![sym.root];
    while let Some(i) = stack.pop() {
        if seen[i] {
            continue;
        }
        seen[i] = true;
        for k in &sym.nodes[i].kids {
            stack.push(*k);
        }
    }
    seen
}

pub enum BuildError {
    /// construction of this symbolic node failed to type-check
    Op(usize),
    /// finalisation failed: the recipe is useless
    Final,
}

/// Construct the reachable part of the DAG in a fresh context. Returns the root and the witness
/// nodes in construction order.
fn construct<'b>(
    ctx: &types::Context<'b>,
    family: Family,
    sym: &Symbolic,
    wit_values: &[Option<Value>],
    word_seed: u64,
) -> Result<(N<'b>, Vec<N<'b>>), BuildError> {
    let live = reachable(sym);
    let mut built: Vec<Option<N<'b>>> = vec![None; sym.nodes.len()];
    let mut wits: Vec<N<'b>> = Vec::new();
    for i in 0..sym.nodes.len() {
        if !live[i] {
            continue;
        }
        let nd = &sym.nodes[i];
        let kid = |k: usize| -> N<'b> { Arc::clone(built[nd.kids[k]].as_ref().expect("child built")) };
        let res: Result<N<'b>, types::Error> = match &nd.op {
            EOp::Unit => Ok(N::unit(ctx)),
            EOp::Iden => Ok(N::iden(ctx)),
            EOp::Witness => {
                let v = wit_values.get(wits.len()).cloned().flatten();
                let n = N::witness(ctx, v);
                wits.push(Arc::clone(&n));
                Ok(n)
            }
            EOp::Fail(b) => Ok(N::fail(ctx, FailEntropy::from_byte_array([*b; 64]))),
            EOp::Word(n, v) => {
                // the word's bits must not depend on which other nodes exist
                let mut wr = Rng::new(word_seed ^ (i as u64).wrapping_mul(0x9E37_79B9));
                Ok(N::const_word(ctx, word_of(*n, *v, &mut wr)))
            }
            EOp::Jet(j) => Ok(jet_node(ctx, family, *j)),
            EOp::ByteJet => Ok(byte_jet(ctx, family)),
            EOp::InjL => Ok(N::injl(&kid(0))),
            EOp::InjR => Ok(N::injr(&kid(0))),
            EOp::Take => Ok(N::take(&kid(0))),
            EOp::Drop => Ok(N::drop_(&kid(0))),
            EOp::Comp => N::comp(&kid(0), &kid(1)),
            EOp::Case => N::case(&kid(0), &kid(1)),
            EOp::Pair => N::pair(&kid(0), &kid(1)),
            EOp::AssertL(b) => N::assertl(&kid(0), Cmr::from_byte_array([*b; 32])),
            EOp::AssertR(b) => N::assertr(Cmr::from_byte_array([*b; 32]), &kid(0)),
            EOp::Disconnect => N::disconnect(&kid(0), &Some(kid(1))),
            EOp::Alias => Ok(kid(0)),
        };
        match res {
            Ok(n) => built[i] = Some(n),
            Err(_) => return Err(BuildError::Op(i)),
        }
    }
    Ok((built[sym.root].take().expect("root built"), wits))
}

pub struct Built {
    pub redeem: Arc<RedeemNode>,
    pub skipped: usize,
    pub n_witness: usize,
}

/// Build the redemption program of a recipe (two passes, fresh context each).
pub fn build(recipe: &Recipe) -> Option<Built> {
    let mut sym = symbolic(recipe);
    let mut repaired = 0;
    // pass 1: empty witnesses; repair failing constructions by aliasing the node to its first
    // child, each time starting over in a fresh context
    let tys: Vec<Arc<Final>> = loop {
        let r: Result<Vec<Arc<Final>>, BuildError> = types::Context::with_context(|ctx| {
            let (root, wits) = construct(&ctx, recipe.family, &sym, &[], recipe.wit_seed)?;
            let _commit: Arc<CommitNode> = root.finalize_types().map_err(|_| BuildError::Final)?;
            let mut tys = Vec::new();
            for w in &wits {
                tys.push(w.arrow().target.finalize().map_err(|_| BuildError::Final)?);
            }
            Ok(tys)
        });
        match r {
            Ok(t) => break t,
            Err(BuildError::Op(i)) => {
                if sym.nodes[i].kids.is_empty() || repaired > 40 {
                    return None;
                }
                // the root combinators of the closing must stay; anything else collapses
                sym.nodes[i].op = EOp::Alias;
                sym.nodes[i].kids.truncate(1);
                repaired += 1;
            }
            Err(BuildError::Final) => return None,
        }
    };
    let mut r = Rng::new(recipe.wit_seed);
    let mut values = Vec::new();
    for t in &tys {
        values.push(Some(random_value(&mut r, t, 1 << 16)?));
    }
    let redeem = types::Context::with_context(|ctx| {
        let (root, _) = construct(&ctx, recipe.family, &sym, &values, recipe.wit_seed).ok()?;
        root.finalize_unpruned().ok()
    })?;
    Some(Built {
        redeem,
        skipped: repaired,
        n_witness: tys.len(),
    })
}

/// Commitment-time encoding of a recipe (no witness values needed): used for programs whose
/// witness types are too large to populate, e.g. source-type bombs. The program bytes are then
/// offered to the redemption-time decoder with an arbitrary witness stream.
pub fn build_commit_bytes(recipe: &Recipe) -> Option<Vec<u8>> {
    let mut sym = symbolic(recipe);
    let mut repaired = 0;
    loop {
        let r: Result<Vec<u8>, BuildError> = types::Context::with_context(|ctx| {
            let (root, _) = construct(&ctx, recipe.family, &sym, &[], recipe.wit_seed)?;
            let commit: Arc<CommitNode> = root.finalize_types().map_err(|_| BuildError::Final)?;
            Ok(commit.to_vec_without_witness())
        });
        match r {
            Ok(b) => return Some(b),
            Err(BuildError::Op(i)) => {
                if sym.nodes[i].kids.is_empty() || repaired > 40 {
                    return None;
                }
                sym.nodes[i].op = EOp::Alias;
                sym.nodes[i].kids.truncate(1);
                repaired += 1;
            }
            Err(BuildError::Final) => return None,
        }
    }
}

/// Source-type bombs: the witness that feeds the expression gets an astronomically wide type.
pub fn source_bomb_recipe(r: &mut Rng, family: Family) -> Recipe {
    // The leaf is a jet (non-empty closed source type, shared at commitment time) or iden. A
    // witness leaf would not do: commitment-time encodings never share witness nodes, so the
    // encoding of take(x)/drop(x) over it unfolds into 2^k nodes — an exponentially large
    // *input*, which is not the decoder's problem.
    let leaf = if r.chance(1, 5) { GOp::Iden } else { GOp::Jet(r.usize_below(family.n_jets())) };
    let ops = vec![leaf, GOp::SquareSrc(r.range(8, 70) as u8)];
    Recipe {
        family,
        ops,
        close: Close::Early,
        wit_seed: r.next_u64(),
    }
}

/// Target-type bombs: a constant whose TARGET type is squared until its bit width passes 2^63
/// (the library saturates type widths at usize::MAX). The program is well typed, needs no
/// witness data and is a few hundred bytes long; every width-derived quantity computed at
/// redemption time (cells, frames, cost bounds) meets a saturated or overflowing number.
pub fn target_bomb_recipe(r: &mut Rng, family: Family) -> Recipe {
    let mut ops = match r.below(3) {
        0 => vec![GOp::Word(r.range(0, 4) as u8, r.next_u64())],
        1 => vec![GOp::Unit, GOp::InjL],
        _ => vec![GOp::Unit, GOp::InjR],
    };
    let k = r.range(50, 72) as u8;
    if r.bool() {
        ops.push(GOp::Bomb(k));
    } else {
        // the same doubling as a chain of compositions x -> comp(x, pair(iden, iden)): every
        // comp has a mid type twice as wide as the one before AND a child that already needs
        // cells, so the per-node bounds add up widths whose sum passes 2^64
        for _ in 0..k {
            ops.extend([GOp::Iden, GOp::Iden, GOp::Pair, GOp::Comp]);
        }
    }
    Recipe {
        family,
        ops,
        close: Close::Early,
        wit_seed: r.next_u64(),
    }
}

/// Random recipe. `size` ~ number of ops.
pub fn random_recipe(r: &mut Rng, family: Family, size: usize) -> Recipe {
    // swarm: per-recipe weights
    let mut w: [u32; 20] = [6, 6, 4, 1, 4, 3, 4, 5, 5, 5, 5, 8, 4, 8, 2, 2, 2, 6, 2, 1];
    for x in w.iter_mut() {
        if r.chance(1, 5) {
            *x = 0;
        }
    }
    let njets = family.n_jets();
    let mut ops = Vec::new();
    for _ in 0..size {
        ops.push(match r.weighted(&w) {
            0 => GOp::Unit,
            1 => GOp::Iden,
            2 => GOp::Witness,
            3 => GOp::Fail(r.byte()),
            // mostly up to 128 bits; one in eight is a 256..1024-bit constant (hashes, keys)
            4 => GOp::Word(if r.chance(1, 8) { r.range(8, 10) as u8 } else { r.below(8) as u8 }, r.next_u64()),
            5 => GOp::Jet(r.usize_below(njets)),
            6 => GOp::JetApplied(r.usize_below(njets)),
            7 => GOp::InjL,
            8 => GOp::InjR,
            9 => GOp::Take,
            10 => GOp::Drop,
            11 => GOp::Comp,
            12 => GOp::Case,
            13 => GOp::Pair,
            14 => GOp::AssertL(r.byte() & 3),
            15 => GOp::AssertR(r.byte() & 3),
            16 => GOp::Disconnect,
            17 => GOp::Over(r.usize_below(4)),
            18 => GOp::Swap,
            _ => GOp::Bomb(r.range(1, 6) as u8),
        });
    }
    Recipe {
        family,
        ops,
        close: if r.chance(1, 3) { Close::Late } else { Close::Early },
        wit_seed: r.next_u64(),
    }
}

/// Recipe without jets (for the Miri leg, which cannot cross FFI).
pub fn jetfree_recipe(r: &mut Rng, size: usize) -> Recipe {
    let mut rec = random_recipe(r, Family::Core, size);
    rec.ops.retain(|o| !matches!(o, GOp::Jet(_) | GOp::JetApplied(_)));
    rec.close = Close::Early;
    rec
}

/// Recipe whose jets are drawn from the given indices into `Core::ALL` only (the Miri leg
/// supplies Rust implementations for a handful of jets).
pub fn limited_jet_recipe(r: &mut Rng, size: usize, allowed: &[usize]) -> Recipe {
    let mut rec = random_recipe(r, Family::Core, size);
    for o in rec.ops.iter_mut() {
        match o {
            GOp::Jet(i) => *i = allowed[*i % allowed.len()],
            GOp::JetApplied(i) => *i = allowed[*i % allowed.len()],
            _ => {}
        }
    }
    // make sure jets actually occur
    let k = r.urange(1, 3);
    for _ in 0..k {
        rec.ops.push(GOp::JetApplied(*r.pick(allowed)));
        rec.ops.push(if r.bool() { GOp::Pair } else { GOp::Swap });
    }
    rec.close = Close::Early;
    rec
}

/// Several assertions, some of them sharing a hidden CMR (for the repeated-hidden-node rule).
pub fn assert_recipe(r: &mut Rng, family: Family) -> Recipe {
    let mut ops = Vec::new();
    let k = r.urange(2, 5);
    let shared = r.byte() & 3;
    for i in 0..k {
        // assertl(take(leaf), h) : (A + B) x C -> T   /   assertr(h, take(leaf)) : (A + B) x C -> T
        ops.push(match r.below(3) {
            0 => GOp::Iden,
            1 => GOp::Unit,
            _ => GOp::Word(r.below(4) as u8, r.next_u64()),
        });
        if let Some(GOp::Word(..)) = ops.last() {
            // word: 1 -> 2^n; make it total on any source
            ops.insert(ops.len() - 1, GOp::Unit);
            ops.push(GOp::Comp);
        }
        ops.push(GOp::Take);
        let h = if r.chance(2, 3) { shared } else { r.byte() & 3 };
        ops.push(if r.chance(3, 4) { GOp::AssertL(h) } else { GOp::AssertR(h) });
        if i > 0 {
            ops.push(GOp::Pair);
        }
    }
    Recipe {
        family,
        ops,
        close: if r.bool() { Close::Late } else { Close::Early },
        wit_seed: r.next_u64(),
    }
}

/// Several `case` nodes with both branches present, all switched by the tag the witness supplies:
/// executing the program takes one branch of every case, pruning turns every case into an
/// assertion. case(take(leaf), take(leaf')) : (A + B) x C -> T, stages paired.
pub fn case_recipe(r: &mut Rng, family: Family) -> Recipe {
    let mut ops = Vec::new();
    let k = r.urange(2, 6);
    for i in 0..k {
        let word = r.chance(1, 3);
        let n = r.below(4) as u8;
        for _side in 0..2 {
            if word {
                ops.push(GOp::Unit);
                ops.push(GOp::Word(n, r.next_u64()));
                ops.push(GOp::Comp);
            } else {
                ops.push(GOp::Unit);
            }
            ops.push(GOp::Take);
        }
        ops.push(GOp::Case);
        if i > 0 {
            ops.push(GOp::Pair);
        }
    }
    Recipe {
        family,
        ops,
        close: Close::Early,
        wit_seed: r.next_u64(),
    }
}

/// Deep-nesting families: one unary combinator repeated `n` times around a leaf.
pub fn deep_recipe(r: &mut Rng, family: Family, n: u32) -> Recipe {
    let kind = r.below(6);
    let mut ops = vec![match r.below(3) {
        0 => GOp::Unit,
        1 => GOp::Iden,
        _ => GOp::Word(3, r.next_u64()),
    }];
    match kind {
        0 => ops.push(GOp::Rep(Box::new(GOp::InjL), n)),
        1 => ops.push(GOp::Rep(Box::new(GOp::InjR), n)),
        2 => {
            ops[0] = GOp::Iden;
            ops.push(GOp::Rep(Box::new(GOp::Take), n))
        }
        3 => {
            ops[0] = GOp::Iden;
            ops.push(GOp::Rep(Box::new(GOp::Drop), n))
        }
        4 => ops.push(GOp::CompChain(n)),
        _ => {
            // alternate injl / injr
            for _ in 0..(n / 2).min(50_000) {
                ops.push(GOp::InjL);
                ops.push(GOp::InjR);
            }
        }
    }
    Recipe {
        family,
        ops,
        close: if r.bool() { Close::Late } else { Close::Early },
        wit_seed: r.next_u64(),
    }
}

/// Two independently built, deeply nested INCOMPLETE types that have to be unified with each
/// other: a left-nested chain of pairs over fresh witnesses, ((W0 × W1) × W2) × ..., composed
/// with take^n(iden) whose source is ((X × D1) × D2) × ... . Unification then descends n levels
/// (every other deep family meets its deep type through a variable, in one step).
pub fn deep_unify_recipe(r: &mut Rng, family: Family, n: u32) -> Recipe {
    let mut ops = vec![GOp::Witness];
    for _ in 0..n {
        ops.push(GOp::Witness);
        ops.push(GOp::Pair);
    }
    ops.push(GOp::Iden);
    ops.push(GOp::Rep(Box::new(GOp::Take), n));
    ops.push(GOp::Comp);
    Recipe {
        family,
        ops,
        close: if r.bool() { Close::Late } else { Close::Early },
        wit_seed: r.next_u64(),
    }
}

/// Large words and type bombs.
pub fn heavy_recipe(r: &mut Rng, family: Family) -> Recipe {
    let mut ops = Vec::new();
    match r.below(3) {
        0 => {
            ops.push(GOp::Word(r.range(7, 16) as u8, r.next_u64()));
        }
        1 => {
            ops.push(GOp::Unit);
            ops.push(GOp::Bomb(r.range(8, 30) as u8));
        }
        _ => {
            ops.push(GOp::Word(r.range(0, 4) as u8, r.next_u64()));
            ops.push(GOp::Bomb(r.range(2, 10) as u8));
        }
    }
    Recipe {
        family,
        ops,
        close: Close::Early,
        wit_seed: r.next_u64(),
    }
}

pub fn decode_jet_family<I1, I2>(
    family: Family,
    prog: simplicity::BitIter<I1>,
    wit: simplicity::BitIter<I2>,
) -> Result<Arc<RedeemNode>, simplicity::DecodeError>
where
    I1: Iterator<Item = u8>,
    I2: Iterator<Item = u8>,
{
    match family {
        Family::Core => RedeemNode::decode::<_, _, Core>(prog, wit),
        Family::Elements => RedeemNode::decode::<_, _, Elements>(prog, wit),
    }
}

#[allow(dead_code)]
fn _assert_jet_bound<J: Jet>() {}
