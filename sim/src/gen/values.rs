//! Seeded generation of values of a given final type (library constructors only).

use crate::rng::Rng;
use simplicity::types::{CompleteBound, Final};
use simplicity::{BitIter, Value};
use std::sync::Arc;

/// Random value of `ty`. Returns `None` when the type is too large or too deep to be worth it.
pub fn random_value(r: &mut Rng, ty: &Arc<Final>, max_bits: usize) -> Option<Value> {
    if ty.bit_width() > max_bits {
        return None;
    }
    go(r, ty, 0)
}

fn go(r: &mut Rng, ty: &Arc<Final>, depth: usize) -> Option<Value> {
    if depth > 400 {
        return None;
    }
    if !ty.has_padding() {
        // a plain bit string: decode random bits
        let nbytes = ty.bit_width().div_ceil(8);
        let bytes = r.bytes(nbytes + 1);
        let mut it = BitIter::new(bytes.into_iter());
        return Value::from_padded_bits(&mut it, ty).ok();
    }
    match ty.bound() {
        CompleteBound::Unit => Some(Value::unit()),
        CompleteBound::Sum(l, rt) => {
            if r.bool() {
                Some(Value::left(go(r, l, depth + 1)?, Arc::clone(rt)))
            } else {
                Some(Value::right(Arc::clone(l), go(r, rt, depth + 1)?))
            }
        }
        CompleteBound::Product(l, rt) => {
            let a = go(r, l, depth + 1)?;
            let b = go(r, rt, depth + 1)?;
            Some(Value::product(a, b))
        }
    }
}
