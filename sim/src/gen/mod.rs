pub mod programs;
pub mod values;
