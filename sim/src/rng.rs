//! The one PRNG of the simulator: SplitMix64 seeding xoshiro256**.
//! Implemented here so that the stream never changes under us.

#[derive(Clone, Debug)]
pub struct Rng {
    s: [u64; 4],
}

pub fn splitmix(x: &mut u64) -> u64 {
    *x = x.wrapping_add(0x9E37_79B9_7F4A_7C15);
    let mut z = *x;
    z = (z ^ (z >> 30)).wrapping_mul(0xBF58_476D_1CE4_E5B9);
    z = (z ^ (z >> 27)).wrapping_mul(0x94D0_49BB_1331_11EB);
    z ^ (z >> 31)
}

/// Mix (seed, engine tag, run index) into one 64-bit seed.
pub fn mix(seed: u64, tag: &str, run: u64) -> u64 {
    let mut h = seed ^ 0x5851_F42D_4C95_7F2D;
    let mut x = splitmix(&mut h);
    for b in tag.bytes() {
        h ^= u64::from(b);
        x ^= splitmix(&mut h);
    }
    h ^= run.wrapping_mul(0xD6E8_FEB8_6659_FD93);
    x ^ splitmix(&mut h)
}

impl Rng {
    pub fn new(seed: u64) -> Rng {
        let mut x = seed;
        let s = [
            splitmix(&mut x),
            splitmix(&mut x),
            splitmix(&mut x),
            splitmix(&mut x),
        ];
        Rng { s }
    }

    pub fn next_u64(&mut self) -> u64 {
        let r = self.s[1].wrapping_mul(5).rotate_left(7).wrapping_mul(9);
        let t = self.s[1] << 17;
        self.s[2] ^= self.s[0];
        self.s[3] ^= self.s[1];
        self.s[1] ^= self.s[2];
        self.s[0] ^= self.s[3];
        self.s[2] ^= t;
        self.s[3] = self.s[3].rotate_left(45);
        r
    }

    /// Uniform in `0..n` (n > 0). Slight modulo bias is irrelevant here.
    pub fn below(&mut self, n: u64) -> u64 {
        debug_assert!(n > 0);
        self.next_u64() % n
    }

    pub fn usize_below(&mut self, n: usize) -> usize {
        self.below(n as u64) as usize
    }

    /// Uniform in `lo..=hi`.
    pub fn range(&mut self, lo: u64, hi: u64) -> u64 {
        lo + self.below(hi - lo + 1)
    }

    pub fn urange(&mut self, lo: usize, hi: usize) -> usize {
        self.range(lo as u64, hi as u64) as usize
    }

    pub fn bool(&mut self) -> bool {
        self.next_u64() & 1 == 1
    }

    /// True with probability num/den.
    pub fn chance(&mut self, num: u64, den: u64) -> bool {
        self.below(den) < num
    }

    pub fn byte(&mut self) -> u8 {
        self.next_u64() as u8
    }

    pub fn bytes(&mut self, n: usize) -> Vec<u8> {
        (0..n).map(|_| self.byte()).collect()
    }

    pub fn pick<'a, T>(&mut self, xs: &'a [T]) -> &'a T {
        &xs[self.usize_below(xs.len())]
    }

    /// Pick an index according to integer weights.
    pub fn weighted(&mut self, weights: &[u32]) -> usize {
        let total: u64 = weights.iter().map(|w| u64::from(*w)).sum();
        let mut r = self.below(total.max(1));
        for (i, w) in weights.iter().enumerate() {
            if r < u64::from(*w) {
                return i;
            }
            r -= u64::from(*w);
        }
        weights.len() - 1
    }

    pub fn shuffle<T>(&mut self, xs: &mut [T]) {
        for i in (1..xs.len()).rev() {
            let j = self.usize_below(i + 1);
            xs.swap(i, j);
        }
    }

    /// A fresh independent generator (for sub-plans).
    pub fn fork(&mut self) -> Rng {
        Rng::new(self.next_u64())
    }
}

/// FNV-1a 64 over bytes: plan hashing for "distinct" counts (not security relevant).
pub fn fnv64(data: &[u8]) -> u64 {
    let mut h: u64 = 0xcbf2_9ce4_8422_2325;
    for b in data {
        h ^= u64::from(*b);
        h = h.wrapping_mul(0x0000_0100_0000_01B3);
    }
    h
}

#[derive(Clone, Copy, Debug)]
pub struct Fnv(pub u64);

impl Default for Fnv {
    fn default() -> Self {
        Fnv(0xcbf2_9ce4_8422_2325)
    }
}

impl Fnv {
    pub fn new() -> Fnv {
        Fnv::default()
    }
    pub fn u8(&mut self, b: u8) {
        self.0 ^= u64::from(b);
        self.0 = self.0.wrapping_mul(0x0000_0100_0000_01B3);
    }
    pub fn bytes(&mut self, bs: &[u8]) {
        for b in bs {
            self.u8(*b);
        }
    }
    pub fn u64(&mut self, x: u64) {
        self.bytes(&x.to_le_bytes());
    }
    pub fn str(&mut self, s: &str) {
        self.bytes(s.as_bytes());
        self.u8(0xff);
    }
}
