//! Counting global allocator: live bytes and peak since the last reset. One job runs at a time
//! per worker process, so process-wide atomics are precise enough.

use std::alloc::{GlobalAlloc, Layout, System};
use std::sync::atomic::{AtomicUsize, Ordering};

pub struct Counting;

static LIVE: AtomicUsize = AtomicUsize::new(0);
static PEAK: AtomicUsize = AtomicUsize::new(0);
static BIGGEST: AtomicUsize = AtomicUsize::new(0);

unsafe impl GlobalAlloc for Counting {
    unsafe fn alloc(&self, l: Layout) -> *mut u8 {
        let p = System.alloc(l);
        if !p.is_null() {
            let now = LIVE.fetch_add(l.size(), Ordering::Relaxed) + l.size();
            PEAK.fetch_max(now, Ordering::Relaxed);
            BIGGEST.fetch_max(l.size(), Ordering::Relaxed);
        }
        p
    }
    unsafe fn dealloc(&self, p: *mut u8, l: Layout) {
        System.dealloc(p, l);
        LIVE.fetch_sub(l.size(), Ordering::Relaxed);
    }
    unsafe fn alloc_zeroed(&self, l: Layout) -> *mut u8 {
        let p = System.alloc_zeroed(l);
        if !p.is_null() {
            let now = LIVE.fetch_add(l.size(), Ordering::Relaxed) + l.size();
            PEAK.fetch_max(now, Ordering::Relaxed);
            BIGGEST.fetch_max(l.size(), Ordering::Relaxed);
        }
        p
    }
    unsafe fn realloc(&self, p: *mut u8, l: Layout, new: usize) -> *mut u8 {
        let q = System.realloc(p, l, new);
        if !q.is_null() {
            if new >= l.size() {
                let now = LIVE.fetch_add(new - l.size(), Ordering::Relaxed) + (new - l.size());
                PEAK.fetch_max(now, Ordering::Relaxed);
                BIGGEST.fetch_max(new, Ordering::Relaxed);
            } else {
                LIVE.fetch_sub(l.size() - new, Ordering::Relaxed);
            }
        }
        q
    }
}

/// Start a measurement window; returns the live byte count at the start.
pub fn reset() -> usize {
    let live = LIVE.load(Ordering::Relaxed);
    PEAK.store(live, Ordering::Relaxed);
    BIGGEST.store(0, Ordering::Relaxed);
    live
}

/// (peak live bytes above the start of the window, largest single allocation)
pub fn peak_since(start: usize) -> (usize, usize) {
    (
        PEAK.load(Ordering::Relaxed).saturating_sub(start),
        BIGGEST.load(Ordering::Relaxed),
    )
}
