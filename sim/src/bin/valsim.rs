//! valsim --prop C10|C11 [common args]
use vsim::engines::valsim::{Mode, ValSim};

fn main() {
    static E10: ValSim = ValSim(Mode::C10);
    static E11: ValSim = ValSim(Mode::C11);
    let args: Vec<String> = std::env::args().collect();
    let prop = args
        .iter()
        .position(|a| a == "--prop")
        .and_then(|i| args.get(i + 1))
        .map(|s| s.as_str())
        .unwrap_or("C10");
    if prop == "C11" {
        vsim::sup::main_with(&E11)
    } else {
        vsim::sup::main_with(&E10)
    }
}
