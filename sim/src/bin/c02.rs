#[global_allocator]
static A: vsim::alloc::Counting = vsim::alloc::Counting;

fn main() {
    static E: vsim::engines::c02::C02 = vsim::engines::c02::C02;
    vsim::sup::main_with(&E)
}
