//! Debug helper (not a check): `dbg prog <family> <program_hex> [witness_hex]`
use simplicity::dag::{DagLike, InternalSharing};
use simplicity::jet::{Core, Elements};
use simplicity::{BitIter, CommitNode};
use vsim::stream::unhex;

fn main() {
    let a: Vec<String> = std::env::args().collect();
    match a[1].as_str() {
        "prog" => {
            let p = unhex(&a[3]);
            let w = unhex(a.get(4).map(|s| s.as_str()).unwrap_or(""));
            let c = if a[2] == "core" {
                CommitNode::decode::<_, Core>(BitIter::new(p.iter().copied()))
            } else {
                CommitNode::decode::<_, Elements>(BitIter::new(p.iter().copied()))
            };
            match c {
                Ok(c) => {
                    for d in c.as_ref().post_order_iter::<InternalSharing>() {
                        println!(
                            "{:3}: {:?} [{:?},{:?}] : {}  (target width {})",
                            d.index,
                            d.node.inner().as_ref().map(|_| ()).map_disconnect(|_| ()).map_witness(|_| ()),
                            d.left_index,
                            d.right_index,
                            d.node.arrow(),
                            d.node.arrow().target.bit_width()
                        );
                    }
                }
                Err(e) => println!("commit decode error: {:?}", vsim::engines::c02::dec_or_type(&e)),
            }
            let r = vsim::gen::programs::decode_jet_family(
                vsim::gen::programs::Family::from_name(&a[2]),
                BitIter::new(p.iter().copied()),
                BitIter::new(w.iter().copied()),
            );
            match r {
                Ok(r) => {
                    let (p2, w2) = r.to_vec_with_witness();
                    println!("redeem ok; reencode equal: {} {}", p2 == p, w2 == w);
                }
                Err(e) => println!("redeem decode error: {}", vsim::engines::c02::dec_or_type(&e)),
            }
        }
        "recipe" => recipe_dbg(a[2].parse().unwrap()),
        "c02kind" => c02_kind(a[2].parse().unwrap()),
        _ => {}
    }
}

#[allow(dead_code)]
pub fn recipe_dbg(run: u64) {
    use vsim::gen::programs::{self, Family};
    use vsim::rng::{mix, Rng};
    let mut r = Rng::new(mix(1, "c02-streamsim", run));
    let family = if r.chance(1, 3) { Family::Elements } else { Family::Core };
    let kind = r.weighted(&[70, 6, 8, 6, 10]);
    assert_eq!(kind, 0);
    let size = match r.below(4) {
        0 => r.urange(1, 6),
        1 => r.urange(4, 16),
        _ => r.urange(8, 48),
    };
    let rec = programs::random_recipe(&mut r, family, size);
    println!("{:?}", rec);
    let b = programs::build(&rec).unwrap();
    println!("skipped {} n_witness {}", b.skipped, b.n_witness);
    for d in b.redeem.as_ref().post_order_iter::<InternalSharing>() {
        if let simplicity::node::Inner::Witness(v) = d.node.inner() {
            println!("witness node {} arrow {} value ty {} value {}", d.index, d.node.arrow(), v.ty(), v);
        }
    }
    let (p, w) = b.redeem.to_vec_with_witness();
    println!("{} {}", vsim::stream::hex(&p), vsim::stream::hex(&w));
}

#[allow(dead_code)]
pub fn c02_kind(run: u64) {
    use vsim::gen::programs::{self, Family};
    use vsim::rng::{mix, Rng};
    let mut r = Rng::new(mix(1, "c02-streamsim", run));
    let family = if r.chance(1, 3) { Family::Elements } else { Family::Core };
    let kind = r.weighted(&[60, 6, 8, 6, 10, 6, 3, 3]);
    println!("run {} family {:?} kind {}", run, family, kind);
    if kind == 6 {
        let rec = programs::source_bomb_recipe(&mut r, family);
        println!("{:?}", rec);
    }
}
