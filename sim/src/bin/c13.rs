fn main() {
    static E: vsim::engines::c13::C13 = vsim::engines::c13::C13;
    vsim::sup::main_with(&E)
}
