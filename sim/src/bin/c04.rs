fn main() {
    static E: vsim::engines::c04::C04 = vsim::engines::c04::C04;
    vsim::sup::main_with(&E)
}
