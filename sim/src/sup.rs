//! Supervisor: splits a batch of runs over child processes, detects crashes and hangs,
//! minimises violations, matches them against the known-findings file, writes replay files
//! and the evidence file.
//!
//! One integer (VERIF_SEED) decides every run: run `i` of engine `e` uses `mix(seed, e, i)`.
//! Chunks are a fixed partition of the run range, so the verdict does not depend on the number
//! of worker processes.

use crate::rng::mix;
use serde_json::{json, Value as Json};
use std::cell::RefCell;
use std::collections::{BTreeMap, BTreeSet};
use std::io::{Read, Write};
use std::panic;
use std::path::{Path, PathBuf};
use std::process::{Command, Stdio};
use std::sync::atomic::{AtomicU64, Ordering};
use std::sync::{Arc, Mutex};
use std::time::{Duration, Instant};

/// Root of the harness (known findings, replays, evidence). `check` exports its own directory as
/// VERIF_DIR so that a snapshot or scratch copy of the harness stays self-contained.
pub fn verif_dir() -> PathBuf {
    std::env::var_os("VERIF_DIR").map(PathBuf::from).unwrap_or_else(|| PathBuf::from("/verif"))
}

#[derive(Clone, Copy, Debug, PartialEq, Eq)]
pub enum Tier {
    Quick,
    Thorough,
}

impl Tier {
    pub fn as_str(self) -> &'static str {
        match self {
            Tier::Quick => "quick",
            Tier::Thorough => "thorough",
        }
    }
    pub fn pick<T>(self, q: T, t: T) -> T {
        match self {
            Tier::Quick => q,
            Tier::Thorough => t,
        }
    }
}

#[derive(Clone, Debug)]
pub struct Violation {
    /// Oracle that failed (e.g. "T2-reencode", "panic", "crash:SIGABRT", "hang").
    pub class: String,
    /// Finer signature: call site + input class. Known findings are matched on (class, key).
    pub key: String,
    pub message: String,
    pub plan: Json,
    pub run: u64,
}

/// Everything a run reports back.
pub struct RunOut {
    pub run: u64,
    pub evals: u64,
    pub counters: BTreeMap<String, u64>,
    pub nontrivial: Vec<u64>,
    pub violations: Vec<Violation>,
    pub viol_counts: BTreeMap<(String, String), u64>,
    pub samples: Vec<Json>,
    pub trace_plans: bool,
    pub max_samples: usize,
}

impl RunOut {
    pub fn new(trace_plans: bool) -> RunOut {
        RunOut {
            run: 0,
            evals: 0,
            counters: BTreeMap::new(),
            nontrivial: Vec::new(),
            violations: Vec::new(),
            viol_counts: BTreeMap::new(),
            samples: Vec::new(),
            trace_plans,
            max_samples: 3,
        }
    }

    pub fn count(&mut self, k: &str, n: u64) {
        if n == 0 {
            return;
        }
        if let Some(v) = self.counters.get_mut(k) {
            *v += n;
        } else {
            self.counters.insert(k.to_owned(), n);
        }
    }

    /// Keep the maximum seen for a gauge-like counter (prefix "max_").
    pub fn gauge_max(&mut self, k: &str, n: u64) {
        let e = self.counters.entry(k.to_owned()).or_insert(0);
        if n > *e {
            *e = n;
        }
    }

    /// Record one evaluation (one executed plan).
    pub fn eval(&mut self, plan_hash: u64, nontrivial: bool) {
        heartbeat();
        self.evals += 1;
        if nontrivial {
            self.nontrivial.push(plan_hash);
        }
    }

    pub fn violation(&mut self, class: &str, key: &str, message: String, plan: impl FnOnce() -> Json) {
        let k = (class.to_owned(), key.to_owned());
        let c = self.viol_counts.entry(k).or_insert(0);
        *c += 1;
        if *c == 1 {
            let mut message = message;
            if message.len() > 2000 {
                let mut cut = 2000;
                while !message.is_char_boundary(cut) {
                    cut -= 1;
                }
                message.truncate(cut);
                message.push_str("…");
            }
            self.violations.push(Violation {
                class: class.to_owned(),
                key: key.to_owned(),
                message,
                plan: plan(),
                run: self.run,
            });
        }
    }

    pub fn sample(&mut self, f: impl FnOnce() -> Json) {
        if self.samples.len() < self.max_samples {
            self.samples.push(f());
        }
    }

    /// In `--trace-plans` mode print the plan before executing it, so that the plan in flight
    /// when the process dies is known.
    pub fn trace(&self, f: impl FnOnce() -> Json) {
        heartbeat();
        if self.trace_plans {
            let out = std::io::stdout();
            let mut l = out.lock();
            let _ = writeln!(l, "PLAN {}", f());
            let _ = l.flush();
        }
    }

    /// Fold the results of a nested RunOut (used when an execution has to own its RunOut,
    /// e.g. inside a shuttle closure) into this one.
    pub fn merge_from(&mut self, o: RunOut) {
        self.evals += o.evals;
        for (k, v) in o.counters {
            if k.starts_with("max_") {
                self.gauge_max(&k, v);
            } else {
                self.count(&k, v);
            }
        }
        self.nontrivial.extend(o.nontrivial);
        for v in o.violations {
            let k = (v.class.clone(), v.key.clone());
            let c = self.viol_counts.entry(k).or_insert(0);
            *c += 1;
            if *c == 1 {
                self.violations.push(Violation { run: self.run, ..v });
            }
        }
        for s in o.samples {
            if self.samples.len() < self.max_samples {
                self.samples.push(s);
            }
        }
    }

    pub fn has_violation(&self) -> bool {
        !self.violations.is_empty()
    }
}

pub trait Engine: Sync {
    fn property_id(&self) -> String;
    fn engine_name(&self) -> String;
    /// exploration | fault_enumeration
    fn level(&self) -> &'static str;
    fn rule(&self) -> String;
    fn assumptions(&self) -> Vec<String>;
    fn components(&self) -> Json;
    fn n_runs(&self, tier: Tier) -> u64;
    /// Generate and execute run `run`. `seed` is already mixed.
    fn run(&self, run: u64, seed: u64, tier: Tier, out: &mut RunOut);
    /// Execute one explicit plan (from a replay file or from the minimiser).
    fn replay(&self, plan: &Json, out: &mut RunOut);
    /// Smaller candidate plans, most aggressive first.
    fn shrink(&self, _plan: &Json) -> Vec<Json> {
        Vec::new()
    }
    /// Stack of the thread that executes runs (engines that vary the stack spawn their own).
    fn worker_stack(&self) -> usize {
        256 << 20
    }
    /// Seconds without a heartbeat before a run is declared hung: CPU seconds while it computes,
    /// wall-clock seconds while it sits blocked (see `spawn_watchdog`).
    fn hang_secs(&self) -> u64 {
        60
    }
    /// Address-space limit of worker processes (0 = none).
    fn rlimit_as(&self) -> u64 {
        0
    }
    /// Extra keys for the coverage object, computed from the merged counters.
    fn extra_coverage(&self, _counters: &BTreeMap<String, u64>) -> Json {
        json!({})
    }
    /// File stem of the evidence file (default: the property id).
    fn evidence_name(&self) -> Option<String> {
        None
    }
    /// Reach probes that should be non-zero after a run of this tier; missing ones are reported.
    fn expected_probes(&self, _tier: Tier) -> Vec<&'static str> {
        Vec::new()
    }
}

// ---------------------------------------------------------------------------------------------
// panic capture

thread_local! {
    static LAST_PANIC: RefCell<Option<String>> = const { RefCell::new(None) };
}

pub fn install_panic_hook() {
    panic::set_hook(Box::new(|info| {
        let msg = if let Some(s) = info.payload().downcast_ref::<&str>() {
            (*s).to_owned()
        } else if let Some(s) = info.payload().downcast_ref::<String>() {
            s.clone()
        } else {
            "<non-string panic payload>".to_owned()
        };
        let loc = info
            .location()
            .map(|l| format!("{}:{}", l.file(), l.line()))
            .unwrap_or_default();
        if std::env::var_os("VERIF_DEBUG").is_some() {
            eprintln!("panic: {} @ {}", msg, loc);
        }
        LAST_PANIC.with(|p| *p.borrow_mut() = Some(format!("{} @ {}", msg, loc)));
    }));
}

/// Run `f`, turning a panic into `Err(message @ file:line)`.
pub fn guard<T>(f: impl FnOnce() -> T) -> Result<T, String> {
    match panic::catch_unwind(panic::AssertUnwindSafe(f)) {
        Ok(v) => Ok(v),
        Err(_) => Err(LAST_PANIC
            .with(|p| p.borrow_mut().take())
            .unwrap_or_else(|| "<panic>".to_owned())),
    }
}

/// The "stem" of a panic message used as violation key: location, with digits of the message dropped.
pub fn panic_key(msg: &str) -> String {
    let loc = msg.rsplit(" @ ").next().unwrap_or("");
    // strip the absolute prefix of the repo so the key is stable
    let loc = loc.trim_start_matches("/repo/");
    // locations inside dependencies (cargo registry, rustc): keep crate-relative tail only
    let loc = match loc.find("/src/") {
        Some(i) if loc.starts_with('/') => {
            let head = &loc[..i];
            let krate = head.rsplit('/').next().unwrap_or("");
            &loc[i - krate.len()..]
        }
        _ => loc,
    };
    // drop line number: a hook commit shifting lines must not change known-finding keys
    let file = loc.rsplit_once(':').map(|x| x.0).unwrap_or(loc);
    let head: String = msg
        .chars()
        .take_while(|c| *c != '@')
        .filter(|c| !c.is_ascii_digit())
        .take(60)
        .collect();
    format!("{}|{}", file, head.trim())
}

// ---------------------------------------------------------------------------------------------
// heartbeat / watchdog

static HEARTBEAT: AtomicU64 = AtomicU64::new(0);
/// worker deaths investigated so far in this batch (parent side)
static DEATHS: AtomicU64 = AtomicU64::new(0);
const MAX_INVESTIGATED_DEATHS: u64 = 4;

pub fn heartbeat() {
    HEARTBEAT.fetch_add(1, Ordering::Relaxed);
}

/// CPU time consumed so far by this process (all threads) / by the calling thread, in seconds.
/// Time bounds in oracles are stated in CPU time so that they do not depend on machine load.
pub fn process_cpu_secs() -> f64 {
    cpu_clock(libc::CLOCK_PROCESS_CPUTIME_ID)
}

pub fn thread_cpu_secs() -> f64 {
    cpu_clock(libc::CLOCK_THREAD_CPUTIME_ID)
}

fn cpu_clock(id: libc::clockid_t) -> f64 {
    let mut ts = libc::timespec { tv_sec: 0, tv_nsec: 0 };
    // SAFETY: plain syscall filling a local struct
    let rc = unsafe { libc::clock_gettime(id, &mut ts) };
    if rc != 0 {
        return 0.0;
    }
    ts.tv_sec as f64 + ts.tv_nsec as f64 * 1e-9
}

/// A worker hangs when it makes no progress (no heartbeat) while either burning `secs` seconds of
/// CPU (a loop) or sitting for `secs` seconds of wall-clock time with practically no CPU use (a
/// deadlock). A worker that is merely starved by other load on the machine matches neither.
fn spawn_watchdog(secs: u64) {
    std::thread::spawn(move || {
        let mut last = HEARTBEAT.load(Ordering::Relaxed);
        let mut since = Instant::now();
        let mut cpu_since = process_cpu_secs();
        loop {
            std::thread::sleep(Duration::from_millis(500));
            let now = HEARTBEAT.load(Ordering::Relaxed);
            if now != last {
                last = now;
                since = Instant::now();
                cpu_since = process_cpu_secs();
                continue;
            }
            let wall = since.elapsed().as_secs_f64();
            let cpu = process_cpu_secs() - cpu_since;
            let spinning = cpu >= secs as f64;
            let blocked = wall >= secs as f64 && cpu < 0.02 * wall;
            if spinning || blocked {
                let out = std::io::stdout();
                let mut l = out.lock();
                let _ = writeln!(l, "HANG");
                let _ = l.flush();
                std::process::exit(97);
            }
        }
    });
}

// ---------------------------------------------------------------------------------------------
// args

#[derive(Clone, Debug)]
pub struct Args {
    pub tier: Tier,
    pub seed: u64,
    pub workers: usize,
    pub worker: bool,
    pub from: u64,
    pub to: u64,
    pub out: Option<String>,
    pub trace: bool,
    pub trace_plans: bool,
    pub replay: Option<String>,
    pub replay_child: bool,
    pub runs_override: Option<u64>,
    pub no_evidence: bool,
    pub no_minimise: bool,
    pub extra: Vec<String>,
}

pub fn parse_args() -> Args {
    let mut a = Args {
        tier: match std::env::var("VERIF_TIER").as_deref() {
            Ok("thorough") => Tier::Thorough,
            _ => Tier::Quick,
        },
        seed: std::env::var("VERIF_SEED")
            .ok()
            .and_then(|s| s.trim().parse().ok())
            .unwrap_or(1),
        workers: std::env::var("VERIF_WORKERS")
            .ok()
            .and_then(|s| s.parse().ok())
            .unwrap_or_else(|| {
                std::thread::available_parallelism()
                    .map(|n| n.get())
                    .unwrap_or(4)
            }),
        worker: false,
        from: 0,
        to: 0,
        out: None,
        trace: false,
        trace_plans: false,
        replay: None,
        replay_child: false,
        runs_override: std::env::var("VERIF_RUNS").ok().and_then(|s| s.parse().ok()),
        no_evidence: false,
        no_minimise: std::env::var("VERIF_NO_MINIMISE").is_ok(),
        extra: Vec::new(),
    };
    let mut it = std::env::args().skip(1);
    while let Some(x) = it.next() {
        match x.as_str() {
            "--tier" => {
                a.tier = match it.next().as_deref() {
                    Some("thorough") => Tier::Thorough,
                    Some("quick") => Tier::Quick,
                    other => harness_error(&format!("bad --tier {:?}", other)),
                }
            }
            "--seed" => a.seed = num(it.next()),
            "--workers" => a.workers = num(it.next()) as usize,
            "--worker" => a.worker = true,
            "--from" => a.from = num(it.next()),
            "--to" => a.to = num(it.next()),
            "--out" => a.out = it.next(),
            "--trace" => a.trace = true,
            "--trace-plans" => a.trace_plans = true,
            "--replay" => a.replay = it.next(),
            "--replay-child" => a.replay_child = true,
            "--runs" => a.runs_override = Some(num(it.next())),
            "--no-evidence" => a.no_evidence = true,
            "--no-minimise" => a.no_minimise = true,
            _ => a.extra.push(x),
        }
    }
    a
}

fn num(s: Option<String>) -> u64 {
    match s.and_then(|s| s.parse().ok()) {
        Some(n) => n,
        None => harness_error("expected a number"),
    }
}

pub fn harness_error(msg: &str) -> ! {
    eprintln!("HARNESS-ERROR: {}", msg);
    std::process::exit(2)
}

// ---------------------------------------------------------------------------------------------
// worker side

fn apply_rlimit(bytes: u64) {
    if bytes == 0 {
        return;
    }
    unsafe {
        let lim = libc::rlimit {
            rlim_cur: bytes as libc::rlim_t,
            rlim_max: bytes as libc::rlim_t,
        };
        libc::setrlimit(libc::RLIMIT_AS, &lim);
        // no core files from deliberate crashes
        let z = libc::rlimit {
            rlim_cur: 0,
            rlim_max: 0,
        };
        libc::setrlimit(libc::RLIMIT_CORE, &z);
    }
}

fn out_to_json(o: &RunOut) -> Json {
    json!({
        "evals": o.evals,
        "counters": o.counters,
        "violations": o.violations.iter().map(|v| json!({
            "class": v.class, "key": v.key, "message": v.message, "plan": v.plan, "run": v.run,
        })).collect::<Vec<_>>(),
        "viol_counts": o.viol_counts.iter().map(|((c, k), n)| json!([c, k, n])).collect::<Vec<_>>(),
        "samples": o.samples,
    })
}

fn worker_main<E: Engine + 'static>(engine: &'static E, a: &Args) -> ! {
    install_panic_hook();
    apply_rlimit(engine.rlimit_as());
    spawn_watchdog(engine.hang_secs());
    let a2 = a.clone();
    let name = engine.engine_name();
    let h = std::thread::Builder::new()
        .stack_size(engine.worker_stack())
        .spawn(move || {
            let mut out = RunOut::new(a2.trace_plans);
            for run in a2.from..a2.to {
                if a2.trace {
                    let so = std::io::stdout();
                    let mut l = so.lock();
                    let _ = writeln!(l, "RUN {}", run);
                    let _ = l.flush();
                }
                out.run = run;
                heartbeat();
                engine.run(run, mix(a2.seed, &name, run), a2.tier, &mut out);
            }
            out
        })
        .unwrap_or_else(|e| harness_error(&format!("spawn: {}", e)));
    let out = match h.join() {
        Ok(o) => o,
        Err(_) => {
            // a panic that escaped the engine's own guards: report as abnormal exit
            println!("ESCAPED-PANIC");
            std::process::exit(98);
        }
    };
    if let Some(path) = &a.out {
        let j = out_to_json(&out);
        std::fs::write(path, serde_json::to_vec(&j).unwrap())
            .unwrap_or_else(|e| harness_error(&format!("write {}: {}", path, e)));
        let mut hb = Vec::with_capacity(out.nontrivial.len() * 8);
        for h in &out.nontrivial {
            hb.extend_from_slice(&h.to_le_bytes());
        }
        std::fs::write(format!("{}.hashes", path), hb)
            .unwrap_or_else(|e| harness_error(&format!("write hashes: {}", e)));
    }
    std::process::exit(0)
}

fn replay_child_main<E: Engine + 'static>(engine: &'static E, a: &Args) -> ! {
    install_panic_hook();
    apply_rlimit(engine.rlimit_as());
    spawn_watchdog(engine.hang_secs());
    let path = a.replay.clone().unwrap();
    let text = std::fs::read_to_string(&path)
        .unwrap_or_else(|e| harness_error(&format!("read {}: {}", path, e)));
    let file: Json =
        serde_json::from_str(&text).unwrap_or_else(|e| harness_error(&format!("parse: {}", e)));
    let plan = file.get("plan").cloned().unwrap_or(file);
    let h = std::thread::Builder::new()
        .stack_size(engine.worker_stack())
        .spawn(move || {
            let mut out = RunOut::new(false);
            engine.replay(&plan, &mut out);
            out
        })
        .unwrap();
    let out = match h.join() {
        Ok(o) => o,
        Err(_) => {
            println!("ESCAPED-PANIC");
            std::process::exit(98);
        }
    };
    for v in &out.violations {
        println!(
            "RESULT {}",
            json!({"class": v.class, "key": v.key, "message": v.message})
        );
    }
    std::process::exit(0)
}

// ---------------------------------------------------------------------------------------------
// parent side

struct ChunkResult {
    evals: u64,
    counters: BTreeMap<String, u64>,
    violations: Vec<Violation>,
    viol_counts: BTreeMap<(String, String), u64>,
    samples: Vec<Json>,
    hashes: Vec<u64>,
}

fn exit_class(status: &std::process::ExitStatus, stdout: &str) -> String {
    use std::os::unix::process::ExitStatusExt;
    if let Some(sig) = status.signal() {
        let name = match sig {
            libc::SIGABRT => "SIGABRT",
            libc::SIGSEGV => "SIGSEGV",
            libc::SIGKILL => "SIGKILL",
            libc::SIGBUS => "SIGBUS",
            libc::SIGILL => "SIGILL",
            libc::SIGFPE => "SIGFPE",
            _ => "SIGNAL",
        };
        return format!("crash:{}", name);
    }
    match status.code() {
        Some(97) => "hang".to_owned(),
        Some(98) => "crash:escaped-panic".to_owned(),
        Some(c) => {
            let _ = stdout;
            format!("crash:exit{}", c)
        }
        None => "crash:unknown".to_owned(),
    }
}

fn scratch_dir() -> PathBuf {
    let base = std::env::var("VERIF_SCRATCH")
        .map(PathBuf::from)
        .unwrap_or_else(|_| verif_dir().join("sim/target/scratch"));
    let d = base.join(format!("{}-{}", std::process::id(), std::env::args().next().map(|s| {
        Path::new(&s).file_name().map(|f| f.to_string_lossy().into_owned()).unwrap_or_default()
    }).unwrap_or_default()));
    std::fs::create_dir_all(&d).unwrap_or_else(|e| harness_error(&format!("mkdir {:?}: {}", d, e)));
    d
}

fn self_cmd(a: &Args) -> Command {
    let exe = std::env::current_exe().unwrap_or_else(|e| harness_error(&format!("exe: {}", e)));
    let mut c = Command::new(exe);
    c.arg("--tier").arg(a.tier.as_str());
    c.arg("--seed").arg(a.seed.to_string());
    for x in &a.extra {
        c.arg(x);
    }
    c.stdin(Stdio::null());
    c
}

struct ChildRun {
    status: std::process::ExitStatus,
    stdout: String,
    stderr_tail: String,
}

fn run_child(mut c: Command) -> ChildRun {
    c.stdout(Stdio::piped()).stderr(Stdio::piped());
    let mut child = c
        .spawn()
        .unwrap_or_else(|e| harness_error(&format!("spawn worker: {}", e)));
    let mut so = child.stdout.take().unwrap();
    let mut se = child.stderr.take().unwrap();
    let t = std::thread::spawn(move || {
        let mut s = Vec::new();
        let _ = se.read_to_end(&mut s);
        s
    });
    let mut out = Vec::new();
    let _ = so.read_to_end(&mut out);
    let status = child
        .wait()
        .unwrap_or_else(|e| harness_error(&format!("wait: {}", e)));
    let err = t.join().unwrap_or_default();
    let err = String::from_utf8_lossy(&err).into_owned();
    let tail: String = {
        let n = err.len();
        let mut start = n.saturating_sub(600);
        while !err.is_char_boundary(start) {
            start += 1;
        }
        err[start..].to_owned()
    };
    ChildRun {
        status,
        stdout: String::from_utf8_lossy(&out).into_owned(),
        stderr_tail: tail,
    }
}

fn read_chunk_result(path: &Path) -> ChunkResult {
    let text = std::fs::read(path).unwrap_or_else(|e| harness_error(&format!("read {:?}: {}", path, e)));
    let j: Json = serde_json::from_slice(&text).unwrap_or_else(|e| harness_error(&format!("parse chunk: {}", e)));
    let mut counters = BTreeMap::new();
    if let Some(m) = j["counters"].as_object() {
        for (k, v) in m {
            counters.insert(k.clone(), v.as_u64().unwrap_or(0));
        }
    }
    let mut violations = Vec::new();
    for v in j["violations"].as_array().cloned().unwrap_or_default() {
        violations.push(Violation {
            class: v["class"].as_str().unwrap_or("").to_owned(),
            key: v["key"].as_str().unwrap_or("").to_owned(),
            message: v["message"].as_str().unwrap_or("").to_owned(),
            plan: v["plan"].clone(),
            run: v["run"].as_u64().unwrap_or(0),
        });
    }
    let mut viol_counts = BTreeMap::new();
    for e in j["viol_counts"].as_array().cloned().unwrap_or_default() {
        viol_counts.insert(
            (
                e[0].as_str().unwrap_or("").to_owned(),
                e[1].as_str().unwrap_or("").to_owned(),
            ),
            e[2].as_u64().unwrap_or(0),
        );
    }
    let hb = std::fs::read(format!("{}.hashes", path.display())).unwrap_or_default();
    let hashes = hb
        .chunks_exact(8)
        .map(|c| u64::from_le_bytes(c.try_into().unwrap()))
        .collect();
    let _ = std::fs::remove_file(path);
    let _ = std::fs::remove_file(format!("{}.hashes", path.display()));
    ChunkResult {
        evals: j["evals"].as_u64().unwrap_or(0),
        counters,
        violations,
        viol_counts,
        samples: j["samples"].as_array().cloned().unwrap_or_default(),
        hashes,
    }
}

/// Execute the run range [from,to) in child processes, handling abnormal deaths.
fn exec_chunk(a: &Args, dir: &Path, chunk: usize, from: u64, to: u64) -> ChunkResult {
    let mut acc = ChunkResult {
        evals: 0,
        counters: BTreeMap::new(),
        violations: Vec::new(),
        viol_counts: BTreeMap::new(),
        samples: Vec::new(),
        hashes: Vec::new(),
    };
    let mut from = from;
    let mut crashes = 0;
    while from < to {
        let path = dir.join(format!("chunk-{}-{}.json", chunk, from));
        let mut c = self_cmd(a);
        c.arg("--worker")
            .arg("--from")
            .arg(from.to_string())
            .arg("--to")
            .arg(to.to_string())
            .arg("--out")
            .arg(&path);
        let r = run_child(c);
        if r.status.success() {
            merge(&mut acc, read_chunk_result(&path));
            break;
        }
        // abnormal death: find the run in flight. Investigation re-runs the chunk up to three
        // times (each possibly waiting for the hang watchdog), so it is done for the first few
        // deaths of a batch only; the others are counted and their chunk remainder is skipped.
        crashes += 1;
        if DEATHS.fetch_add(1, Ordering::SeqCst) >= MAX_INVESTIGATED_DEATHS {
            *acc.counters.entry("worker_deaths_not_investigated".into()).or_insert(0) += 1;
            *acc.counters.entry("runs_skipped_after_crash_cap".into()).or_insert(0) += to - from;
            break;
        }
        let mut c = self_cmd(a);
        c.arg("--worker")
            .arg("--trace")
            .arg("--from")
            .arg(from.to_string())
            .arg("--to")
            .arg(to.to_string());
        let r2 = run_child(c);
        if r2.status.success() {
            // Did not die again. Every run is a deterministic function of its seed, so a death
            // that does not replay comes from the environment (an overloaded machine tripping the
            // wall-clock watchdog, the OOM killer, ...), not from the code under test: it is
            // counted and reported as a warning, never as a violation.
            *acc.counters.entry("worker_deaths_not_reproducible".into()).or_insert(0) += 1;
            eprintln!(
                "WARNING: worker for runs {}..{} died once ({}) but completed when re-run; treated as environmental",
                from,
                to,
                exit_class(&r.status, &r.stdout)
            );
            continue;
        }
        let class = exit_class(&r2.status, &r2.stdout);
        let bad = r2
            .stdout
            .lines()
            .rev()
            .find_map(|l| l.strip_prefix("RUN ").and_then(|s| s.trim().parse::<u64>().ok()))
            .unwrap_or(from);
        // runs before the bad one: collect normally
        if bad > from {
            let path = dir.join(format!("chunk-{}-{}-pre.json", chunk, from));
            let mut c = self_cmd(a);
            c.arg("--worker")
                .arg("--from")
                .arg(from.to_string())
                .arg("--to")
                .arg(bad.to_string())
                .arg("--out")
                .arg(&path);
            let r3 = run_child(c);
            if r3.status.success() {
                merge(&mut acc, read_chunk_result(&path));
            }
        }
        // the plan in flight
        let mut c = self_cmd(a);
        c.arg("--worker")
            .arg("--trace-plans")
            .arg("--from")
            .arg(bad.to_string())
            .arg("--to")
            .arg((bad + 1).to_string());
        let r4 = run_child(c);
        let plan = r4
            .stdout
            .lines()
            .rev()
            .find_map(|l| l.strip_prefix("PLAN ").and_then(|s| serde_json::from_str::<Json>(s).ok()))
            .unwrap_or_else(|| json!({"run_index": bad, "note": "plan not captured"}));
        let class4 = if r4.status.success() {
            class.clone()
        } else {
            exit_class(&r4.status, &r4.stdout)
        };
        let key = refine_overflow_key(
            a,
            &["--worker".into(), "--from".into(), bad.to_string().into(), "--to".into(), (bad + 1).to_string().into()],
            &crash_key(&plan),
            &format!("{}{}", r2.stderr_tail, r4.stderr_tail),
        );
        *acc.viol_counts.entry((class4.clone(), key.clone())).or_insert(0) += 1;
        acc.violations.push(Violation {
            class: class4,
            key,
            message: format!("worker died in run {}; stderr tail: {}", bad, r2.stderr_tail.trim()),
            plan,
            run: bad,
        });
        *acc.counters.entry("worker_deaths".into()).or_insert(0) += 1;
        from = bad + 1;
        if crashes >= 6 && from < to {
            *acc.counters.entry("runs_skipped_after_crash_cap".into()).or_insert(0) += to - from;
            break;
        }
    }
    acc
}

/// Key for crash/hang classes: engines put a "site" string in their plans.
fn crash_key(plan: &Json) -> String {
    plan.get("site")
        .and_then(|s| s.as_str())
        .unwrap_or("unknown-site")
        .to_owned()
}

/// A stack overflow is keyed by the library function that recurses, so that the known-findings
/// file can list one recursion without hiding another. The dead child is re-run once under gdb
/// (`args` = the worker arguments that reproduce the death) and the library function that occurs
/// most often in the innermost 64 frames is taken (ties: alphabetical). Without gdb the key ends
/// in ":stack-overflow" only.
fn refine_overflow_key(a: &Args, args: &[std::ffi::OsString], key: &str, stderr_tail: &str) -> String {
    if !stderr_tail.contains("overflowed its stack") {
        return key.to_owned();
    }
    match overflow_site(a, args) {
        Some(site) => format!("{}:stack-overflow@{}", key, site),
        None => format!("{}:stack-overflow", key),
    }
}

fn overflow_site(a: &Args, args: &[std::ffi::OsString]) -> Option<String> {
    let inner = self_cmd(a);
    let mut c = Command::new("gdb");
    c.args(["-q", "-batch", "-nx", "-ex", "set pagination off", "-ex", "set confirm off", "-ex", "run", "-ex", "bt 64", "--args"]);
    c.arg(inner.get_program());
    c.args(inner.get_args());
    c.args(args);
    c.stdin(Stdio::null()).stdout(Stdio::piped()).stderr(Stdio::null());
    let mut child = c.spawn().ok()?;
    // bounded wait: gdb is an aid, never a reason to hang the batch
    let pid = child.id();
    let done = Arc::new(std::sync::atomic::AtomicBool::new(false));
    let done2 = Arc::clone(&done);
    std::thread::spawn(move || {
        let t0 = Instant::now();
        while t0.elapsed() < Duration::from_secs(180) {
            std::thread::sleep(Duration::from_millis(200));
            if done2.load(Ordering::Relaxed) {
                return;
            }
        }
        // SAFETY: plain kill(2) on our own child
        unsafe {
            libc::kill(pid as i32, libc::SIGKILL);
        }
    });
    let mut text = String::new();
    if let Some(mut so) = child.stdout.take() {
        let _ = so.read_to_string(&mut text);
    }
    let _ = child.wait();
    done.store(true, Ordering::Relaxed);
    let mut counts: BTreeMap<String, u32> = BTreeMap::new();
    for l in text.lines() {
        let l = l.trim_start();
        if !l.starts_with('#') {
            continue;
        }
        // "#4  0x... in path::to::function<generics> (args) at file:line"
        let rest = l.split_once(char::is_whitespace).map(|x| x.1.trim_start()).unwrap_or("");
        let rest = match rest.strip_prefix("0x") {
            Some(r) => r.split_once(" in ").map(|x| x.1).unwrap_or(""),
            None => rest,
        };
        let name: String = if rest.starts_with("simplicity") {
            let end = rest.find(|ch| ch == '<' || ch == ' ' || ch == '(').unwrap_or(rest.len());
            rest[..end].to_owned()
        } else {
            // e.g. core::ptr::drop_in_place<simplicity::types::final_data::Final> or
            // <simplicity::types::final_data::Final as core::ops::drop::Drop>::drop
            let end = rest.find(" (").unwrap_or(rest.len());
            let whole = &rest[..end];
            match whole.find("simplicity::") {
                Some(at) => {
                    let inner: String = whole[at..].chars().take_while(|c| c.is_alphanumeric() || *c == '_' || *c == ':').collect();
                    let outer = whole[..at].trim_end_matches(|c| c == '<' || c == ' ');
                    let outer = outer.rsplit("::").next().unwrap_or("");
                    format!("{}({})", inner.trim_end_matches(':'), outer)
                }
                None => continue,
            }
        };
        if !name.contains('{') {
            *counts.entry(name).or_insert(0) += 1;
        }
    }
    let max = counts.values().copied().max()?;
    if max < 3 {
        return None;
    }
    counts.into_iter().find(|(_, n)| *n + 1 >= max).map(|(k, _)| k)
}

fn merge(acc: &mut ChunkResult, r: ChunkResult) {
    acc.evals += r.evals;
    for (k, v) in r.counters {
        if k.starts_with("max_") {
            let e = acc.counters.entry(k).or_insert(0);
            if v > *e {
                *e = v;
            }
        } else {
            *acc.counters.entry(k).or_insert(0) += v;
        }
    }
    for v in r.violations {
        acc.violations.push(v);
    }
    for (k, v) in r.viol_counts {
        *acc.viol_counts.entry(k).or_insert(0) += v;
    }
    for s in r.samples {
        if acc.samples.len() < 6 {
            acc.samples.push(s);
        }
    }
    acc.hashes.extend(r.hashes);
}

/// Replay one plan in a fresh child; returns the (class,key,message) list it produced, where a
/// dead child is reported as a crash/hang class.
fn replay_in_child(a: &Args, dir: &Path, plan: &Json, tag: &str) -> Vec<(String, String, String)> {
    let path = dir.join(format!("replay-{}.json", tag));
    std::fs::write(&path, serde_json::to_vec(&json!({"plan": plan})).unwrap())
        .unwrap_or_else(|e| harness_error(&format!("write: {}", e)));
    let mut c = self_cmd(a);
    c.arg("--replay-child").arg("--replay").arg(&path);
    let r = run_child(c);
    let mut res = Vec::new();
    for l in r.stdout.lines() {
        if let Some(j) = l.strip_prefix("RESULT ") {
            if let Ok(j) = serde_json::from_str::<Json>(j) {
                res.push((
                    j["class"].as_str().unwrap_or("").to_owned(),
                    j["key"].as_str().unwrap_or("").to_owned(),
                    j["message"].as_str().unwrap_or("").to_owned(),
                ));
            }
        }
    }
    if !r.status.success() {
        res.push((
            exit_class(&r.status, &r.stdout),
            refine_overflow_key(a, &["--replay-child".into(), "--replay".into(), path.clone().into_os_string()], &crash_key(plan), &r.stderr_tail),
            format!("child died; stderr tail: {}", r.stderr_tail.trim()),
        ));
    }
    let _ = std::fs::remove_file(&path);
    res
}

fn is_process_class(class: &str) -> bool {
    class.starts_with("crash:") || class == "hang"
}

/// Greedy minimisation: accept any candidate that still produces the same (class, key).
fn minimise<E: Engine>(engine: &E, a: &Args, dir: &Path, v: &Violation) -> (Json, u64) {
    let mut plan = v.plan.clone();
    let isolated = is_process_class(&v.class);
    let mut budget: i64 = if isolated { 60 } else { 3000 };
    let start = Instant::now();
    let mut steps = 0;
    'outer: loop {
        if budget <= 0 || start.elapsed() > Duration::from_secs(90) {
            break;
        }
        for cand in engine.shrink(&plan) {
            budget -= 1;
            if budget < 0 || start.elapsed() > Duration::from_secs(90) {
                break 'outer;
            }
            let mut canonical: Option<Json> = None;
            let same = if isolated {
                replay_in_child(a, dir, &cand, "min")
                    .iter()
                    .any(|(c, k, _)| *c == v.class && *k == v.key)
            } else {
                let mut out = RunOut::new(false);
                let r = guard(|| engine.replay(&cand, &mut out));
                // the engine may attach a completed plan to the violation (e.g. the schedule
                // shuttle persisted for the failing execution): keep that one
                canonical = out
                    .violations
                    .iter()
                    .find(|x| x.class == v.class && x.key == v.key)
                    .map(|x| x.plan.clone());
                r.is_ok() && canonical.is_some()
            };
            if same {
                plan = canonical.unwrap_or(cand);
                steps += 1;
                continue 'outer;
            }
        }
        break;
    }
    (plan, steps)
}

#[derive(Clone, Debug)]
struct Known {
    class: String,
    key: String,
    what: String,
    /// the entry matches only the replay of this file under regressions/ (a specific input)
    only_regression: Option<String>,
}

/// `*` in a known-finding key stands for any run of characters (used where one defect is reached
/// through several decoders / jet families, which are part of the site string).
fn glob_match(pat: &str, text: &str) -> bool {
    let parts: Vec<&str> = pat.split('*').collect();
    if parts.len() == 1 {
        return pat == text;
    }
    let mut rest = text;
    for (i, p) in parts.iter().enumerate() {
        if i == 0 {
            match rest.strip_prefix(p) {
                Some(r) => rest = r,
                None => return false,
            }
        } else if i == parts.len() - 1 {
            return rest.ends_with(p);
        } else {
            match rest.find(p) {
                Some(at) => rest = &rest[at + p.len()..],
                None => return false,
            }
        }
    }
    true
}

fn load_known(property: &str) -> Vec<Known> {
    let path = verif_dir().join("known-findings.json");
    let text = match std::fs::read_to_string(&path) {
        Ok(t) => t,
        Err(_) => return Vec::new(),
    };
    let j: Json = serde_json::from_str(&text)
        .unwrap_or_else(|e| harness_error(&format!("known-findings.json: {}", e)));
    let mut res = Vec::new();
    for f in j["findings"].as_array().cloned().unwrap_or_default() {
        if f["property"].as_str() == Some(property) {
            res.push(Known {
                class: f["class"].as_str().unwrap_or("").to_owned(),
                key: f["key"].as_str().unwrap_or("").to_owned(),
                what: f["what"].as_str().unwrap_or("").to_owned(),
                only_regression: f["only_regression_plan"].as_str().map(|s| s.to_owned()),
            });
        }
    }
    res
}

pub fn main_with<E: Engine + 'static>(engine: &'static E) -> ! {
    let a = parse_args();
    if a.worker {
        worker_main(engine, &a);
    }
    if a.replay_child {
        replay_child_main(engine, &a);
    }
    install_panic_hook();
    let prop = engine.property_id();
    let dir = scratch_dir();

    if let Some(path) = &a.replay {
        let text = std::fs::read_to_string(path)
            .unwrap_or_else(|e| harness_error(&format!("read {}: {}", path, e)));
        let file: Json = serde_json::from_str(&text)
            .unwrap_or_else(|e| harness_error(&format!("parse {}: {}", path, e)));
        let plan = file.get("plan").cloned().unwrap_or_else(|| file.clone());
        let want_class = file["violation"]["class"].as_str().unwrap_or("").to_owned();
        let want_key = file["violation"]["key"].as_str().unwrap_or("").to_owned();
        let res = replay_in_child(&a, &dir, &plan, "user");
        let _ = std::fs::remove_dir_all(&dir);
        let mut hit = false;
        for (c, k, m) in &res {
            println!("replayed: class={} key={} message={}", c, k, m);
            if (want_class.is_empty() || *c == want_class) && (want_key.is_empty() || *k == want_key) {
                hit = true;
            }
        }
        if hit {
            println!("REPRODUCED");
            println!("VIOLATION property={} replay={}", prop, path);
            std::process::exit(1);
        }
        println!("NOT-REPRODUCED (the plan no longer violates the property)");
        std::process::exit(0);
    }

    let t0 = Instant::now();
    let n_runs = a.runs_override.unwrap_or_else(|| engine.n_runs(a.tier));
    println!(
        "[{}] engine={} tier={} VERIF_SEED={} runs={} workers={}",
        prop,
        engine.engine_name(),
        a.tier.as_str(),
        a.seed,
        n_runs,
        a.workers
    );
    let n_chunks = 64.min(n_runs.max(1)) as usize;
    let bounds: Vec<(u64, u64)> = (0..n_chunks)
        .map(|i| {
            (
                n_runs * i as u64 / n_chunks as u64,
                n_runs * (i as u64 + 1) / n_chunks as u64,
            )
        })
        .collect();
    let next = Arc::new(Mutex::new(0usize));
    let results: Arc<Mutex<Vec<Option<ChunkResult>>>> =
        Arc::new(Mutex::new((0..n_chunks).map(|_| None).collect()));
    std::thread::scope(|s| {
        for _ in 0..a.workers.max(1).min(n_chunks) {
            let next = next.clone();
            let results = results.clone();
            let a = &a;
            let dir = &dir;
            let bounds = &bounds;
            s.spawn(move || loop {
                let i = {
                    let mut g = next.lock().unwrap();
                    let i = *g;
                    *g += 1;
                    i
                };
                if i >= bounds.len() {
                    break;
                }
                let r = exec_chunk(a, dir, i, bounds[i].0, bounds[i].1);
                results.lock().unwrap()[i] = Some(r);
            });
        }
    });
    let mut total = ChunkResult {
        evals: 0,
        counters: BTreeMap::new(),
        violations: Vec::new(),
        viol_counts: BTreeMap::new(),
        samples: Vec::new(),
        hashes: Vec::new(),
    };
    let results = Arc::try_unwrap(results).ok().unwrap().into_inner().unwrap();
    for r in results.into_iter().flatten() {
        merge(&mut total, r);
    }
    let mut hashes = std::mem::take(&mut total.hashes);
    hashes.sort_unstable();
    hashes.dedup();
    let distinct_nontrivial = hashes.len() as u64;
    // digest of everything the batch computed (for the determinism self-test): plans, counters
    // other than resource gauges, violation groups. Wall-clock quantities never enter it.
    let run_digest = {
        let mut h = crate::rng::Fnv::new();
        h.u64(total.evals);
        for x in &hashes {
            h.u64(*x);
        }
        for (k, v) in &total.counters {
            if k.starts_with("max_") || k.starts_with("worker_deaths") || k.starts_with("runs_skipped") {
                continue;
            }
            h.str(k);
            h.u64(*v);
        }
        for ((c, k), n) in &total.viol_counts {
            h.str(c);
            h.str(k);
            h.u64(*n);
        }
        h.0
    };
    drop(hashes);

    // group violations by (class,key), keep the lowest run index of each
    let mut groups: BTreeMap<(String, String), Violation> = BTreeMap::new();
    for v in total.violations.drain(..) {
        let k = (v.class.clone(), v.key.clone());
        match groups.get(&k) {
            Some(old) if old.run <= v.run => {}
            _ => {
                groups.insert(k, v);
            }
        }
    }
    // directed plans: every file under regressions/ for this property and engine is replayed in a
    // fresh child on every batch (inputs of fixed defects, which must stay quiet, and of recorded
    // findings, which must keep matching their known-findings entry)
    let mut regression_files = 0u64;
    if let Ok(rd) = std::fs::read_dir(verif_dir().join("regressions")) {
        let mut files: Vec<PathBuf> = rd.flatten().map(|e| e.path()).filter(|p| p.extension().map(|x| x == "json").unwrap_or(false)).collect();
        files.sort();
        for f in files {
            let j: Json = match std::fs::read_to_string(&f).ok().and_then(|t| serde_json::from_str(&t).ok()) {
                Some(j) => j,
                None => harness_error(&format!("regression file {:?} is not JSON", f)),
            };
            if j["property"].as_str() != Some(prop.as_str()) || j["engine"].as_str() != Some(engine.engine_name().as_str()) {
                continue;
            }
            regression_files += 1;
            for (class, key, message) in replay_in_child(&a, &dir, &j["plan"], "regression") {
                *total.viol_counts.entry((class.clone(), key.clone())).or_insert(0) += 1;
                let k = (class.clone(), key.clone());
                groups.entry(k).or_insert(Violation {
                    class,
                    key,
                    message: format!("{} [regression plan {}]", message, f.file_name().map(|x| x.to_string_lossy().into_owned()).unwrap_or_default()),
                    plan: j["plan"].clone(),
                    run: u64::MAX,
                });
            }
        }
    }
    total.counters.insert("regression_plans_replayed".into(), regression_files);
    let known = load_known(&prop);
    let mut used_known: BTreeSet<usize> = BTreeSet::new();
    let mut unlisted = 0u64;
    let mut lines = Vec::new();
    for ((class, key), v) in &groups {
        let n = total.viol_counts.get(&(class.clone(), key.clone())).copied().unwrap_or(1);
        if let Some((i, k)) = known
            .iter()
            .enumerate()
            .find(|(_, k)| {
                k.class == *class
                    && glob_match(&k.key, key)
                    && k.only_regression.as_ref().map(|f| v.message.contains(&format!("[regression plan {}]", f))).unwrap_or(true)
            })
        {
            used_known.insert(i);
            lines.push(format!(
                "KNOWN-FINDING: property={} {} [class={} key={} occurrences={}]",
                prop, k.what, class, key, n
            ));
            continue;
        }
        unlisted += 1;
        println!(
            "found: class={} key={} run={} occurrences={} message={}",
            class, key, v.run, n, v.message
        );
        let _ = std::io::stdout().flush();
        let (plan, steps) = if a.no_minimise {
            (v.plan.clone(), 0)
        } else {
            minimise(engine, &a, &dir, v)
        };
        // confirm in a fresh process
        let confirm = replay_in_child(&a, &dir, &plan, "confirm");
        let confirmed = confirm.iter().any(|(c, k, _)| c == class && k == key);
        let safe_key: String = key
            .chars()
            .map(|c| if c.is_ascii_alphanumeric() { c } else { '_' })
            .take(40)
            .collect();
        let safe_class: String = class
            .chars()
            .map(|c| if c.is_ascii_alphanumeric() { c } else { '_' })
            .collect();
        let path = verif_dir().join("replays").join(format!(
            "{}-{}-{}-seed{}-run{}.json",
            prop, safe_class, safe_key, a.seed, v.run
        ));
        let _ = std::fs::create_dir_all(path.parent().unwrap());
        let file = json!({
            "property": prop,
            "engine": engine.engine_name(),
            "verif_seed": a.seed,
            "tier": a.tier.as_str(),
            "run": v.run,
            "build": {"profile": "release + debug-assertions + overflow-checks", "repo": "/repo working tree"},
            "plan": plan,
            "violation": {"class": class, "key": key, "message": v.message, "occurrences_in_batch": n},
            "minimisation": {"accepted_steps": steps, "original_plan_bytes": v.plan.to_string().len(), "minimised_plan_bytes": plan.to_string().len()},
            "replay_confirmed_in_fresh_process": confirmed,
            "replay_cmd": format!("{}/check {} --replay {}", verif_dir().display(), prop, path.display()),
        });
        std::fs::write(&path, serde_json::to_string_pretty(&file).unwrap())
            .unwrap_or_else(|e| harness_error(&format!("write replay: {}", e)));
        lines.push(format!(
            "violation: class={} key={} occurrences={} message={}",
            class, key, n, v.message
        ));
        lines.push(format!("VIOLATION property={} replay={}", prop, path.display()));
    }
    let wall = t0.elapsed().as_secs_f64();

    // reach probes
    let mut missing = Vec::new();
    for p in engine.expected_probes(a.tier) {
        if total.counters.get(p).copied().unwrap_or(0) == 0 {
            missing.push(p);
        }
    }

    if !a.no_evidence {
        let mut coverage = json!({
            "evaluations": total.evals,
            "distinct_nontrivial": distinct_nontrivial,
            "rule": engine.rule(),
            "samples": total.samples,
            "runs": n_runs,
            "runs_per_hour": (n_runs as f64 / wall.max(1e-3) * 3600.0) as u64,
            "evaluations_per_hour": (total.evals as f64 / wall.max(1e-3) * 3600.0) as u64,
            "seeds_per_hour": (n_runs as f64 / wall.max(1e-3) * 3600.0) as u64,
            "simulated_time": "not applicable: the library has no clock, timer or deadline; progress is counted in operations and scheduler steps",
            "counters": total.counters,
            "components": engine.components(),
            "probes_expected_but_zero": missing,
            "violation_groups": groups.keys().map(|(c, k)| format!("{}|{}", c, k)).collect::<Vec<_>>(),
            "exhaustive": false,
            "run_digest": format!("{:016x}", run_digest),
        });
        if let (Some(o), Some(e)) = (
            coverage.as_object_mut(),
            engine.extra_coverage(&total.counters).as_object(),
        ) {
            for (k, v) in e {
                o.insert(k.clone(), v.clone());
            }
        }
        let ev = json!({
            "property_id": prop,
            "tier": a.tier.as_str(),
            "seed": a.seed,
            "level": engine.level(),
            "coverage": coverage,
            "assumptions": engine.assumptions(),
            "wall_s": wall,
            "violations": unlisted,
            "known_findings_hit": used_known.len(),
        });
        let path = verif_dir()
            .join("evidence")
            .join(format!("{}.json", engine.evidence_name().unwrap_or_else(|| prop.clone())));
        let _ = std::fs::create_dir_all(path.parent().unwrap());
        std::fs::write(&path, serde_json::to_string_pretty(&ev).unwrap())
            .unwrap_or_else(|e| harness_error(&format!("write evidence: {}", e)));
    }
    let _ = std::fs::remove_dir_all(&dir);

    for l in &lines {
        println!("{}", l);
    }
    println!(
        "[{}] runs={} evaluations={} distinct_nontrivial={} wall={:.1}s unlisted_violations={} known_findings_hit={}",
        prop, n_runs, total.evals, distinct_nontrivial, wall, unlisted, used_known.len()
    );
    println!("[{}] run_digest={:016x}", prop, run_digest);
    for (k, v) in &total.counters {
        println!("    {:<44} {}", k, v);
    }
    if !missing.is_empty() {
        println!("WARNING: reach probes at zero: {:?}", missing);
    }
    let _ = std::io::stdout().flush();
    std::process::exit(if unlisted > 0 { 1 } else { 0 })
}
