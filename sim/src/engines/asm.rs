//! Independent bit assembler for program encodings (DESIGN.md Appendix B) and the canonicity
//! variants built with it: from the node list of a decoded valid program, re-assemble the
//! encoding (validating the assembler against the real encoder on every base), then break
//! exactly one canonicity rule at a time.

use crate::engines::c02::C02;
use crate::gen::programs::{self, Family};
use crate::models::bits::pack;
use crate::models::natural;
use crate::rng::Rng;
use crate::stream::SimStream;
use crate::sup::RunOut;
use simplicity::node::Inner;
use simplicity::{BitIter, BitWriter, RedeemNode};
use std::collections::HashMap;
use std::sync::Arc;

#[derive(Clone, Debug, PartialEq)]
pub enum ANode {
    Iden,
    Unit,
    InjL(usize),
    InjR(usize),
    Take(usize),
    Drop(usize),
    Comp(usize, usize),
    Case(usize, usize),
    Pair(usize, usize),
    Disconnect(usize, usize),
    Disconnect1(usize),
    Witness,
    Fail(Vec<u8>),
    Hidden(Vec<u8>),
    /// bits that follow the `11` prefix
    Jet(Vec<bool>),
    /// n (word has 2^n bits) and the bits
    Word(usize, Vec<bool>),
    /// raw: word header claiming 2^(k-1) bits with no data (for the size-33 rule)
    WordHeaderOnly(u64),
}

impl ANode {
    fn children(&self) -> Vec<usize> {
        match self {
            ANode::InjL(i) | ANode::InjR(i) | ANode::Take(i) | ANode::Drop(i) | ANode::Disconnect1(i) => vec![*i],
            ANode::Comp(i, j) | ANode::Case(i, j) | ANode::Pair(i, j) | ANode::Disconnect(i, j) => vec![*i, *j],
            _ => vec![],
        }
    }
    fn map_children(&self, f: &dyn Fn(usize) -> usize) -> ANode {
        match self {
            ANode::InjL(i) => ANode::InjL(f(*i)),
            ANode::InjR(i) => ANode::InjR(f(*i)),
            ANode::Take(i) => ANode::Take(f(*i)),
            ANode::Drop(i) => ANode::Drop(f(*i)),
            ANode::Disconnect1(i) => ANode::Disconnect1(f(*i)),
            ANode::Comp(i, j) => ANode::Comp(f(*i), f(*j)),
            ANode::Case(i, j) => ANode::Case(f(*i), f(*j)),
            ANode::Pair(i, j) => ANode::Pair(f(*i), f(*j)),
            ANode::Disconnect(i, j) => ANode::Disconnect(f(*i), f(*j)),
            other => other.clone(),
        }
    }
}

fn push_bits(out: &mut Vec<bool>, v: u32, n: usize) {
    for i in (0..n).rev() {
        out.push((v >> i) & 1 == 1);
    }
}

fn push_bytes(out: &mut Vec<bool>, b: &[u8]) {
    for x in b {
        push_bits(out, u32::from(*x), 8);
    }
}

/// Child reference: nat(index_of_this_node - index_of_child). `None` when not encodable (<= 0).
fn backref(out: &mut Vec<bool>, this: usize, child: i64) -> Option<()> {
    let d = this as i64 - child;
    if d < 1 {
        return None;
    }
    out.extend(natural::encode(d as u128));
    Some(())
}

/// Assemble a node list; `len_override` replaces the length prefix.
pub fn assemble(nodes: &[ANode], len_override: Option<u128>) -> Option<Vec<u8>> {
    let mut out = Vec::new();
    out.extend(natural::encode(len_override.unwrap_or(nodes.len() as u128)));
    for (idx, n) in nodes.iter().enumerate() {
        match n {
            ANode::Comp(i, j) | ANode::Case(i, j) | ANode::Pair(i, j) | ANode::Disconnect(i, j) => {
                let sub = match n {
                    ANode::Comp(..) => 0,
                    ANode::Case(..) => 1,
                    ANode::Pair(..) => 2,
                    _ => 3,
                };
                push_bits(&mut out, 0b000, 3);
                push_bits(&mut out, sub, 2);
                backref(&mut out, idx, *i as i64)?;
                backref(&mut out, idx, *j as i64)?;
            }
            ANode::InjL(i) | ANode::InjR(i) | ANode::Take(i) | ANode::Drop(i) => {
                let sub = match n {
                    ANode::InjL(..) => 0,
                    ANode::InjR(..) => 1,
                    ANode::Take(..) => 2,
                    _ => 3,
                };
                push_bits(&mut out, 0b001, 3);
                push_bits(&mut out, sub, 2);
                backref(&mut out, idx, *i as i64)?;
            }
            ANode::Iden => push_bits(&mut out, 0b01000, 5),
            ANode::Unit => push_bits(&mut out, 0b01001, 5),
            ANode::Fail(e) => {
                push_bits(&mut out, 0b01010, 5);
                push_bytes(&mut out, e);
            }
            ANode::Disconnect1(i) => {
                push_bits(&mut out, 0b01011, 5);
                backref(&mut out, idx, *i as i64)?;
            }
            ANode::Hidden(h) => {
                push_bits(&mut out, 0b0110, 4);
                push_bytes(&mut out, h);
            }
            ANode::Witness => push_bits(&mut out, 0b0111, 4),
            ANode::Jet(bits) => {
                push_bits(&mut out, 0b11, 2);
                out.extend_from_slice(bits);
            }
            ANode::Word(n, bits) => {
                push_bits(&mut out, 0b10, 2);
                out.extend(natural::encode(1 + *n as u128));
                out.extend_from_slice(bits);
            }
            ANode::WordHeaderOnly(k) => {
                push_bits(&mut out, 0b10, 2);
                out.extend(natural::encode(u128::from(*k)));
            }
        }
    }
    Some(pack(&out))
}

/// Node list of a decoded redemption program, in the order the canonical encoding must have.
pub fn node_list(p: &Arc<RedeemNode>) -> Option<Vec<ANode>> {
    // iterative post-order; sharing by pointer for nodes and by CMR for hidden nodes
    enum Item<'a> {
        Visit(&'a RedeemNode),
        Emit(&'a RedeemNode),
        Hidden(Vec<u8>),
    }
    let mut idx_of: HashMap<usize, usize> = HashMap::new();
    let mut hid_of: HashMap<Vec<u8>, usize> = HashMap::new();
    let mut out: Vec<ANode> = Vec::new();
    let mut stack = vec![Item::Visit(p.as_ref())];
    let key = |n: &RedeemNode| n as *const RedeemNode as usize;
    while let Some(it) = stack.pop() {
        match it {
            Item::Hidden(h) => {
                if !hid_of.contains_key(&h) {
                    hid_of.insert(h.clone(), out.len());
                    out.push(ANode::Hidden(h));
                }
            }
            Item::Visit(n) => {
                if idx_of.contains_key(&key(n)) {
                    continue;
                }
                stack.push(Item::Emit(n));
                // children pushed right first so that left is processed first
                match n.inner() {
                    Inner::InjL(c) | Inner::InjR(c) | Inner::Take(c) | Inner::Drop(c) => {
                        stack.push(Item::Visit(c.as_ref()))
                    }
                    Inner::Comp(l, r) | Inner::Case(l, r) | Inner::Pair(l, r) => {
                        stack.push(Item::Visit(r.as_ref()));
                        stack.push(Item::Visit(l.as_ref()));
                    }
                    Inner::Disconnect(l, r) => {
                        stack.push(Item::Visit(r.as_ref()));
                        stack.push(Item::Visit(l.as_ref()));
                    }
                    Inner::AssertL(l, cmr) => {
                        stack.push(Item::Hidden(cmr.as_ref().to_vec()));
                        stack.push(Item::Visit(l.as_ref()));
                    }
                    Inner::AssertR(cmr, r) => {
                        stack.push(Item::Visit(r.as_ref()));
                        stack.push(Item::Hidden(cmr.as_ref().to_vec()));
                    }
                    _ => {}
                }
            }
            Item::Emit(n) => {
                if idx_of.contains_key(&key(n)) {
                    continue;
                }
                let ix = |c: &Arc<RedeemNode>| idx_of.get(&key(c.as_ref())).copied();
                let node = match n.inner() {
                    Inner::Iden => ANode::Iden,
                    Inner::Unit => ANode::Unit,
                    Inner::InjL(c) => ANode::InjL(ix(c)?),
                    Inner::InjR(c) => ANode::InjR(ix(c)?),
                    Inner::Take(c) => ANode::Take(ix(c)?),
                    Inner::Drop(c) => ANode::Drop(ix(c)?),
                    Inner::Comp(l, r) => ANode::Comp(ix(l)?, ix(r)?),
                    Inner::Case(l, r) => ANode::Case(ix(l)?, ix(r)?),
                    Inner::Pair(l, r) => ANode::Pair(ix(l)?, ix(r)?),
                    Inner::Disconnect(l, r) => ANode::Disconnect(ix(l)?, ix(r)?),
                    Inner::AssertL(l, cmr) => ANode::Case(ix(l)?, *hid_of.get(&cmr.as_ref().to_vec())?),
                    Inner::AssertR(cmr, r) => ANode::Case(*hid_of.get(&cmr.as_ref().to_vec())?, ix(r)?),
                    Inner::Witness(_) => ANode::Witness,
                    Inner::Fail(e) => ANode::Fail(e.as_ref().to_vec()),
                    Inner::Jet(j) => {
                        let mut bytes = Vec::new();
                        let nbits = {
                            let mut w = BitWriter::new(&mut bytes as &mut dyn std::io::Write);
                            let n = j.encode(&mut w).ok()?;
                            w.flush_all().ok()?;
                            n
                        };
                        let bits = crate::models::bits::unpack(&bytes);
                        ANode::Jet(bits[..nbits].to_vec())
                    }
                    Inner::Word(w) => ANode::Word(w.n(), w.iter().collect()),
                };
                idx_of.insert(key(n), out.len());
                out.push(node);
            }
        }
    }
    Some(out)
}

fn ref_counts(nodes: &[ANode]) -> Vec<usize> {
    let mut c = vec![0; nodes.len()];
    for n in nodes {
        for k in n.children() {
            if k < c.len() {
                c[k] += 1;
            }
        }
    }
    c
}

/// Insert `node` at position `at`, shifting references.
fn insert_at(nodes: &[ANode], at: usize, node: ANode) -> Vec<ANode> {
    let mut v: Vec<ANode> = Vec::with_capacity(nodes.len() + 1);
    for (i, n) in nodes.iter().enumerate() {
        if i == at {
            v.push(node.clone());
        }
        v.push(n.map_children(&|c| if c >= at { c + 1 } else { c }));
    }
    if at >= nodes.len() {
        v.push(node);
    }
    v
}

pub fn canonicity_variants(
    eng: &C02,
    family: Family,
    program: &[u8],
    witness: &[u8],
    r: &mut Rng,
    out: &mut RunOut,
) {
    let (ps, _) = SimStream::new(program.to_vec());
    let (ws, _) = SimStream::new(witness.to_vec());
    let decoded = match programs::decode_jet_family(family, BitIter::new(ps), BitIter::new(ws)) {
        Ok(p) => p,
        Err(_) => return,
    };
    let nodes = match node_list(&decoded) {
        Some(n) => n,
        None => return,
    };
    drop(decoded);
    let asm = match assemble(&nodes, None) {
        Some(a) => a,
        None => return,
    };
    if asm != program {
        out.count("asm_mismatch_with_encoder", 1);
        return;
    }
    out.count("asm_validated_against_encoder", 1);
    let n = nodes.len();
    let refs = ref_counts(&nodes);
    let deliver = |rule: &str, bytes: Option<Vec<u8>>, wit: &[u8], r: &mut Rng, out: &mut RunOut| {
        if let Some(b) = bytes {
            if b != program || wit != witness {
                out.count(&format!("canon_{}", rule.replace('-', "_")), 1);
                eng.deliver_asm(family, &b, wit, Some(rule), false, r, out);
            }
        }
    };

    // (a) unused node, at up to three positions
    for _ in 0..3 {
        let at = r.usize_below(n);
        let leaf = match r.below(3) {
            0 => ANode::Unit,
            1 => ANode::Iden,
            _ => ANode::Witness,
        };
        // an unused witness would also shift the witness stream; keep to witness-free leaves
        let leaf = if leaf == ANode::Witness { ANode::Unit } else { leaf };
        let v = insert_at(&nodes, at, leaf);
        deliver("unused-node", assemble(&v, None), witness, r, out);
    }
    // (b) swapped adjacent independent nodes
    let mut tries = 0;
    let mut done = 0;
    while tries < 12 && done < 3 && n >= 3 {
        tries += 1;
        let i = r.usize_below(n - 1);
        if nodes[i + 1].children().contains(&i) {
            continue;
        }
        // witness order must stay the same, otherwise the variant is rejected for a trivial reason
        if nodes[i] == ANode::Witness && nodes[i + 1] == ANode::Witness {
            continue;
        }
        let mut v: Vec<ANode> = nodes.to_vec();
        v.swap(i, i + 1);
        let v: Vec<ANode> = v
            .iter()
            .map(|x| {
                x.map_children(&|c| {
                    if c == i {
                        i + 1
                    } else if c == i + 1 {
                        i
                    } else {
                        c
                    }
                })
            })
            .collect();
        done += 1;
        deliver("swapped-order", assemble(&v, None), witness, r, out);
    }
    // (c) unshared duplicate of a node that is referenced at least twice
    let shared: Vec<usize> = (0..n)
        .filter(|i| refs[*i] >= 2 && !matches!(nodes[*i], ANode::Hidden(_) | ANode::Witness))
        .collect();
    for _ in 0..2 {
        if shared.is_empty() {
            break;
        }
        let i = *r.pick(&shared);
        // copy placed right after the original; the last parent is redirected to the copy
        let v = insert_at(&nodes, i + 1, nodes[i].clone());
        let last_parent = (0..v.len()).rev().find(|p| v[*p].children().contains(&i));
        if let Some(p) = last_parent {
            let mut v2 = v.clone();
            let mut first = true;
            v2[p] = v[p].map_children(&|c| c);
            // redirect exactly one reference of the last parent
            let ch = v[p].children();
            let pos = ch.iter().rposition(|c| *c == i).unwrap();
            let cnt = std::cell::Cell::new(0usize);
            v2[p] = v[p].map_children(&|c| {
                let k = cnt.get();
                cnt.set(k + 1);
                if k == pos && c == i {
                    i + 1
                } else {
                    c
                }
            });
            let _ = &mut first;
            deliver("unshared-duplicate", assemble(&v2, None), witness, r, out);
        }
    }
    // (d) repeated hidden node: give the last assertion that uses a shared hidden node its own
    // copy, placed where the canonical order of the unshared DAG wants it (right before the
    // parent when the hidden node is the right child), so that only the hidden-node rule is broken
    let hidden: Vec<usize> = (0..n).filter(|i| matches!(nodes[*i], ANode::Hidden(_))).collect();
    for &i in hidden.iter().take(2) {
        if refs[i] >= 2 {
            let parent = (0..n).rev().find(|p| matches!(nodes[*p], ANode::Case(_, h) if h == i));
            if let Some(p) = parent {
                let v = insert_at(&nodes, p, nodes[i].clone());
                let mut v2 = v.clone();
                // the parent moved to p + 1; its right child becomes the copy at p
                if let ANode::Case(l, _) = v[p + 1] {
                    v2[p + 1] = ANode::Case(l, p);
                    deliver("repeated-hidden-node", assemble(&v2, None), witness, r, out);
                }
            }
        }
    }
    // (e) word of size 2^32 (header only; the decoder must refuse at the bound)
    {
        let v = insert_at(&nodes, 0, ANode::WordHeaderOnly(33));
        deliver("word-size-33", assemble(&v, None), witness, r, out);
    }
    // (f) length prefix that does not fit 31 bits
    {
        let big = (1u128 << 31) + u128::from(r.below(1 << 20));
        deliver("length-prefix-2^31", assemble(&nodes, Some(big)), witness, r, out);
        let huge = 1u128 << r.range(32, 90);
        deliver("length-prefix-huge", assemble(&nodes, Some(huge)), witness, r, out);
    }
    // (g) trailing byte and non-zero padding, on both streams
    {
        let mut p = program.to_vec();
        p.push(0);
        deliver("trailing-byte-program", Some(p), witness, r, out);
        let mut w = witness.to_vec();
        w.push(0);
        deliver("trailing-byte-witness", Some(program.to_vec()), &w, r, out);
    }
    // (h) tiny ill-formed shapes, occasionally
    if r.chance(1, 16) {
        let h = |b: u8| ANode::Hidden(vec![b; 32]);
        deliver("hidden-root", assemble(&[h(1)], None), &[], r, out);
        deliver("both-children-hidden", assemble(&[h(1), h(2), ANode::Case(0, 1)], None), &[], r, out);
        deliver("hidden-under-non-case", assemble(&[h(1), ANode::InjL(0)], None), &[], r, out);
        deliver(
            "hidden-under-non-case",
            assemble(&[ANode::Unit, h(1), ANode::Comp(0, 1)], None),
            &[],
            r,
            out,
        );
    }
}
