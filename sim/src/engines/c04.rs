//! C04 — type inference is sound, principal and order-independent.
//!
//! The inference context is a shared mutable store and every constructor is a multi-step
//! transaction on it; the simulator owns the order in which the nodes of one combinator DAG are
//! constructed, injects failed constructions and early observations, and compares every history
//! with an independent unifier (models/unify.rs).

use crate::gen::programs::Family;
use crate::models::unify::{Store, TId};
use crate::rng::{Fnv, Rng};
use crate::sup::{guard, panic_key, Engine, RunOut, Tier};
use serde_json::{json, Value as Json};
use simplicity::jet::{Core, Elements, Jet};
use simplicity::node::{CoreConstructible, DisconnectConstructible, Inner, WitnessConstructible};
#[allow(unused_imports)]
use simplicity::jet::Jet as _;
use simplicity::types::{self, CompleteBound, Final};
use simplicity::{BitIter, Cmr, CommitNode, ConstructNode, FailEntropy, Word};
use std::collections::HashSet;
use std::fmt::Write as _;
use std::sync::Arc;

pub struct C04;

#[derive(Clone, Debug, PartialEq)]
pub enum DK {
    Iden,
    Unit,
    InjL,
    InjR,
    Take,
    Drop,
    Comp,
    Case,
    Pair,
    AssertL(u8),
    AssertR(u8),
    Disc,
    Disc1,
    Witness,
    Fail(u8),
    Word(u8),
    Jet(usize),
}

impl DK {
    fn name(&self) -> &'static str {
        match self {
            DK::Iden => "iden",
            DK::Unit => "unit",
            DK::InjL => "injl",
            DK::InjR => "injr",
            DK::Take => "take",
            DK::Drop => "drop",
            DK::Comp => "comp",
            DK::Case => "case",
            DK::Pair => "pair",
            DK::AssertL(_) => "assertl",
            DK::AssertR(_) => "assertr",
            DK::Disc => "disconnect",
            DK::Disc1 => "disconnect1",
            DK::Witness => "witness",
            DK::Fail(_) => "fail",
            DK::Word(_) => "word",
            DK::Jet(_) => "jet",
        }
    }
    fn arity(&self) -> usize {
        match self {
            DK::Iden | DK::Unit | DK::Witness | DK::Fail(_) | DK::Word(_) | DK::Jet(_) => 0,
            DK::InjL | DK::InjR | DK::Take | DK::Drop | DK::AssertL(_) | DK::AssertR(_) | DK::Disc1 => 1,
            DK::Comp | DK::Case | DK::Pair | DK::Disc => 2,
        }
    }
}

#[derive(Clone, Debug, PartialEq)]
pub struct DNode {
    pub k: DK,
    pub kids: Vec<usize>,
}

#[derive(Clone, Debug, PartialEq)]
pub struct Plan {
    pub family: Family,
    pub nodes: Vec<DNode>,
    pub root: usize,
    pub program: bool,
    pub orders: Vec<Vec<usize>>,
    /// observe an earlier node (Display of its arrow, final_data, to_incomplete) after every k-th step
    pub observe_every: usize,
    /// attempt this construction (children refer to D) after the given step of every order; its
    /// result is ignored and the history continues with a narrowly relaxed oracle
    pub inject: Option<(usize, DNode)>,
    /// drop the handles of parentless nodes right after constructing them
    pub drop_orphans: bool,
}

fn node_json(n: &DNode) -> Json {
    let mut v: Vec<Json> = vec![json!(n.k.name())];
    match &n.k {
        DK::AssertL(b) | DK::AssertR(b) | DK::Fail(b) | DK::Word(b) => v.push(json!(format!("#{}", b))),
        DK::Jet(i) => v.push(json!(format!("#{}", i))),
        _ => {}
    }
    for k in &n.kids {
        v.push(json!(k));
    }
    Json::Array(v)
}

fn node_from(j: &Json) -> Option<DNode> {
    let a = j.as_array()?;
    let name = a.first()?.as_str()?;
    let mut param: u64 = 0;
    let mut kids = Vec::new();
    for x in a.iter().skip(1) {
        match x {
            Json::String(s) => param = s.trim_start_matches('#').parse().ok()?,
            other => kids.push(other.as_u64()? as usize),
        }
    }
    let k = match name {
        "iden" => DK::Iden,
        "unit" => DK::Unit,
        "injl" => DK::InjL,
        "injr" => DK::InjR,
        "take" => DK::Take,
        "drop" => DK::Drop,
        "comp" => DK::Comp,
        "case" => DK::Case,
        "pair" => DK::Pair,
        "assertl" => DK::AssertL(param as u8),
        "assertr" => DK::AssertR(param as u8),
        "disconnect" => DK::Disc,
        "disconnect1" => DK::Disc1,
        "witness" => DK::Witness,
        "fail" => DK::Fail(param as u8),
        "word" => DK::Word((param as u8).min(12)),
        "jet" => DK::Jet(param as usize),
        _ => return None,
    };
    if kids.len() != k.arity() {
        return None;
    }
    Some(DNode { k, kids })
}

impl Plan {
    pub fn to_json(&self) -> Json {
        json!({
            "site": "c04-history",
            "jets": self.family.name(),
            "nodes": self.nodes.iter().map(node_json).collect::<Vec<_>>(),
            "root": self.root,
            "program": self.program,
            "orders": self.orders,
            "observe_every": self.observe_every,
            "inject": self.inject.as_ref().map(|(s, n)| json!([s, node_json(n)])),
            "drop_orphans": self.drop_orphans,
        })
    }
    pub fn from_json(j: &Json) -> Option<Plan> {
        let mut nodes = Vec::new();
        for (i, n) in j["nodes"].as_array()?.iter().enumerate() {
            let d = node_from(n)?;
            if d.kids.iter().any(|k| *k >= i) {
                return None;
            }
            nodes.push(d);
        }
        if nodes.is_empty() {
            return None;
        }
        let n = nodes.len();
        let mut orders = Vec::new();
        for o in j["orders"].as_array()? {
            let v: Vec<usize> = o.as_array()?.iter().filter_map(|x| x.as_u64().map(|y| y as usize)).collect();
            if is_topological(&nodes, &v) {
                orders.push(v);
            }
        }
        if orders.is_empty() {
            orders.push((0..n).collect());
        }
        let inject = match j["inject"].as_array() {
            Some(a) if a.len() == 2 => {
                let d = node_from(&a[1])?;
                if d.kids.iter().any(|k| *k >= n) {
                    None
                } else {
                    Some((a[0].as_u64()? as usize, d))
                }
            }
            _ => None,
        };
        Some(Plan {
            family: Family::from_name(j["jets"].as_str().unwrap_or("core")),
            root: (j["root"].as_u64().unwrap_or(0) as usize).min(n - 1),
            program: j["program"].as_bool().unwrap_or(false),
            nodes,
            orders,
            observe_every: j["observe_every"].as_u64().unwrap_or(0) as usize,
            inject,
            drop_orphans: j["drop_orphans"].as_bool().unwrap_or(false),
        })
    }
    fn hash(&self) -> u64 {
        let mut h = Fnv::new();
        h.str(&self.to_json().to_string());
        h.0
    }
}

fn is_topological(nodes: &[DNode], order: &[usize]) -> bool {
    if order.len() != nodes.len() {
        return false;
    }
    let mut done = vec![false; nodes.len()];
    for &i in order {
        if i >= nodes.len() || done[i] || nodes[i].kids.iter().any(|k| !done[*k]) {
            return false;
        }
        done[i] = true;
    }
    true
}

// ------------------------------------------------------------------------------------------
// bounded rendering of errors

pub struct Bounded {
    pub len: usize,
    pub cap: usize,
    pub overflow: bool,
    pub head: String,
}

impl std::fmt::Write for Bounded {
    fn write_str(&mut self, s: &str) -> std::fmt::Result {
        if self.len + s.len() > self.cap {
            self.overflow = true;
            return Err(std::fmt::Error);
        }
        self.len += s.len();
        if self.head.len() < 160 {
            self.head.push_str(&s.chars().take(160).collect::<String>());
        }
        Ok(())
    }
}

const DISPLAY_CAP: usize = 4 << 20;
/// CPU seconds of the rendering thread (not wall-clock: the bound must not depend on machine load)
const DISPLAY_SECS: f64 = 10.0;
/// the lock-discipline leg pays a scheduling point per mutex operation: its budget is scaled
pub static DISPLAY_SECS_SCALE: std::sync::atomic::AtomicU64 = std::sync::atomic::AtomicU64::new(1);
fn display_secs() -> f64 {
    DISPLAY_SECS * DISPLAY_SECS_SCALE.load(std::sync::atomic::Ordering::Relaxed) as f64
}
/// largest rendering seen by this worker (bytes), reported as a gauge
static MAX_DISPLAY: std::sync::atomic::AtomicU64 = std::sync::atomic::AtomicU64::new(0);

/// Render with `{}` and `{:?}` into a byte-counting sink that refuses after 4 MiB.
/// Returns Err(key, message) when the rendering is not bounded.
fn check_display<T: std::fmt::Display + std::fmt::Debug>(what: &str, x: &T) -> Result<(), (String, String)> {
    for (mode, dbg) in [("display", false), ("debug", true)] {
        let t0 = crate::sup::thread_cpu_secs();
        let mut b = Bounded { len: 0, cap: DISPLAY_CAP, overflow: false, head: String::new() };
        let r = if dbg { write!(b, "{:?}", x) } else { write!(b, "{}", x) };
        let dt = crate::sup::thread_cpu_secs() - t0;
        MAX_DISPLAY.fetch_max(b.len as u64, std::sync::atomic::Ordering::Relaxed);
        if b.overflow || r.is_err() {
            return Err((
                format!("{}:{}:output-exceeds-4MiB", what, mode),
                format!("{} of {} wrote more than {} bytes (starts: {})", mode, what, DISPLAY_CAP, b.head),
            ));
        }
        if dt > display_secs() {
            return Err((
                format!("{}:{}:slow", what, mode),
                format!("{} of {} took {:.1} CPU s for {} bytes", mode, what, dt, b.len),
            ));
        }
    }
    Ok(())
}

// ------------------------------------------------------------------------------------------
// model side

struct ModelOut {
    st: Store,
    s: Vec<TId>,
    t: Vec<TId>,
    /// first node (in index order) whose equations clash
    clash_at: Option<usize>,
    root_clash: bool,
    reachable: Vec<bool>,
    finite_reachable: bool,
}

fn jet_final(family: Family, idx: usize) -> (Arc<Final>, Arc<Final>) {
    match family {
        Family::Core => {
            let j = &Core::ALL[idx % Core::ALL.len()];
            (j.source_ty().to_final(), j.target_ty().to_final())
        }
        Family::Elements => {
            let j = &Elements::ALL[idx % Elements::ALL.len()];
            (j.source_ty().to_final(), j.target_ty().to_final())
        }
    }
}

/// Equations of one node (Appendix A). Returns (s, t).
fn node_equations(st: &mut Store, family: Family, n: &DNode, s: &[TId], t: &[TId]) -> Result<(TId, TId), ()> {
    let k = |i: usize| n.kids[i];
    Ok(match &n.k {
        DK::Iden => {
            let a = st.var();
            (a, a)
        }
        DK::Unit => (st.var(), st.unit()),
        DK::InjL => {
            let b = st.var();
            (s[k(0)], st.sum(t[k(0)], b))
        }
        DK::InjR => {
            let b = st.var();
            (s[k(0)], st.sum(b, t[k(0)]))
        }
        DK::Take => {
            let b = st.var();
            (st.prod(s[k(0)], b), t[k(0)])
        }
        DK::Drop => {
            let b = st.var();
            (st.prod(b, s[k(0)]), t[k(0)])
        }
        DK::Comp => {
            st.unify(t[k(0)], s[k(1)]).map_err(|_| ())?;
            (s[k(0)], t[k(1)])
        }
        DK::Pair => {
            st.unify(s[k(0)], s[k(1)]).map_err(|_| ())?;
            (s[k(0)], st.prod(t[k(0)], t[k(1)]))
        }
        DK::Case => {
            let (a, b, c) = (st.var(), st.var(), st.var());
            let ac = st.prod(a, c);
            let bc = st.prod(b, c);
            st.unify(s[k(0)], ac).map_err(|_| ())?;
            st.unify(s[k(1)], bc).map_err(|_| ())?;
            st.unify(t[k(0)], t[k(1)]).map_err(|_| ())?;
            let ab = st.sum(a, b);
            (st.prod(ab, c), t[k(0)])
        }
        DK::AssertL(_) => {
            let (a, b, c) = (st.var(), st.var(), st.var());
            let ac = st.prod(a, c);
            st.unify(s[k(0)], ac).map_err(|_| ())?;
            let ab = st.sum(a, b);
            (st.prod(ab, c), t[k(0)])
        }
        DK::AssertR(_) => {
            let (a, b, c) = (st.var(), st.var(), st.var());
            let bc = st.prod(b, c);
            st.unify(s[k(0)], bc).map_err(|_| ())?;
            let ab = st.sum(a, b);
            (st.prod(ab, c), t[k(0)])
        }
        DK::Disc | DK::Disc1 => {
            let (a, b) = (st.var(), st.var());
            let (c, d) = if n.k == DK::Disc { (s[k(1)], t[k(1)]) } else { (st.var(), st.var()) };
            let w = st.word(8);
            let wa = st.prod(w, a);
            st.unify(s[k(0)], wa).map_err(|_| ())?;
            let bc = st.prod(b, c);
            st.unify(t[k(0)], bc).map_err(|_| ())?;
            (a, st.prod(b, d))
        }
        DK::Witness | DK::Fail(_) => (st.var(), st.var()),
        DK::Word(w) => (st.unit(), st.word(*w as usize)),
        DK::Jet(i) => {
            let (a, b) = jet_final(family, *i);
            (st.from_final(&a), st.from_final(&b))
        }
    })
}

/// `with_inject`: also add the equations of the injected node (an orphan over D's nodes).
fn run_model(plan: &Plan, with_inject: bool) -> ModelOut {
    let mut st = Store::new();
    let n = plan.nodes.len();
    let mut s: Vec<TId> = Vec::with_capacity(n);
    let mut t: Vec<TId> = Vec::with_capacity(n);
    let mut clash_at = None;
    for (i, nd) in plan.nodes.iter().enumerate() {
        match node_equations(&mut st, plan.family, nd, &s, &t) {
            Ok((a, b)) => {
                s.push(a);
                t.push(b);
            }
            Err(()) => {
                if clash_at.is_none() {
                    clash_at = Some(i);
                }
                // keep going with fresh variables so that indices stay aligned
                s.push(st.var());
                t.push(st.var());
            }
        }
    }
    if with_inject {
        if let Some((_, nd)) = &plan.inject {
            if node_equations(&mut st, plan.family, nd, &s, &t).is_err() && clash_at.is_none() {
                clash_at = Some(n);
            }
        }
    }
    let mut root_clash = false;
    if plan.program && clash_at.is_none() {
        let u = st.unit();
        if st.unify(s[plan.root], u).is_err() || st.unify(t[plan.root], u).is_err() {
            root_clash = true;
        }
    }
    let mut reachable = vec![false; n];
    let mut stack = vec![plan.root];
    while let Some(i) = stack.pop() {
        if reachable[i] {
            continue;
        }
        reachable[i] = true;
        // the right child of a disconnect is dropped at commitment time but its types are still
        // finalised through the construct node; count it as reachable for finiteness
        for k in &plan.nodes[i].kids {
            stack.push(*k);
        }
    }
    let terms: Vec<TId> = (0..n).filter(|i| reachable[*i]).flat_map(|i| [s[i], t[i]]).collect();
    let finite_reachable = st.all_finite(&terms);
    ModelOut { st, s, t, clash_at, root_clash, reachable, finite_reachable }
}

// ------------------------------------------------------------------------------------------
// structural helpers on library types

fn final_eq(a: &Final, b: &Final) -> bool {
    let mut seen: HashSet<(usize, usize)> = HashSet::new();
    let mut stack = vec![(a, b)];
    while let Some((x, y)) = stack.pop() {
        let key = (x as *const Final as usize, y as *const Final as usize);
        if key.0 == key.1 || !seen.insert(key) {
            continue;
        }
        match (x.bound(), y.bound()) {
            (CompleteBound::Unit, CompleteBound::Unit) => {}
            (CompleteBound::Sum(a1, b1), CompleteBound::Sum(a2, b2))
            | (CompleteBound::Product(a1, b1), CompleteBound::Product(a2, b2)) => {
                stack.push((a1, a2));
                stack.push((b1, b2));
            }
            _ => return false,
        }
    }
    true
}

type Arrow = (Arc<Final>, Arc<Final>);

fn as_prod(f: &Final) -> Option<(&Arc<Final>, &Arc<Final>)> {
    match f.bound() {
        CompleteBound::Product(a, b) => Some((a, b)),
        _ => None,
    }
}
fn as_sum(f: &Final) -> Option<(&Arc<Final>, &Arc<Final>)> {
    match f.bound() {
        CompleteBound::Sum(a, b) => Some((a, b)),
        _ => None,
    }
}

/// Does the node's arrow satisfy the typing rule of its combinator, given its children's arrows?
fn local_rule_ok(family: Family, k: &DK, me: &Arrow, kids: &[&Arrow]) -> bool {
    let (s, t) = (&*me.0, &*me.1);
    match k {
        DK::Iden => final_eq(s, t),
        DK::Unit => matches!(t.bound(), CompleteBound::Unit),
        DK::InjL => final_eq(s, &kids[0].0) && as_sum(t).map(|(a, _)| final_eq(a, &kids[0].1)).unwrap_or(false),
        DK::InjR => final_eq(s, &kids[0].0) && as_sum(t).map(|(_, b)| final_eq(b, &kids[0].1)).unwrap_or(false),
        DK::Take => final_eq(t, &kids[0].1) && as_prod(s).map(|(a, _)| final_eq(a, &kids[0].0)).unwrap_or(false),
        DK::Drop => final_eq(t, &kids[0].1) && as_prod(s).map(|(_, b)| final_eq(b, &kids[0].0)).unwrap_or(false),
        DK::Comp => final_eq(s, &kids[0].0) && final_eq(&kids[0].1, &kids[1].0) && final_eq(t, &kids[1].1),
        DK::Pair => {
            final_eq(s, &kids[0].0)
                && final_eq(s, &kids[1].0)
                && as_prod(t).map(|(a, b)| final_eq(a, &kids[0].1) && final_eq(b, &kids[1].1)).unwrap_or(false)
        }
        DK::Case => (|| {
            let (ab, c) = as_prod(s)?;
            let (a, b) = as_sum(ab)?;
            let (la, lc) = as_prod(&kids[0].0)?;
            let (rb, rc) = as_prod(&kids[1].0)?;
            Some(
                final_eq(la, a)
                    && final_eq(lc, c)
                    && final_eq(rb, b)
                    && final_eq(rc, c)
                    && final_eq(t, &kids[0].1)
                    && final_eq(t, &kids[1].1),
            )
        })()
        .unwrap_or(false),
        DK::AssertL(_) => (|| {
            let (ab, c) = as_prod(s)?;
            let (a, _) = as_sum(ab)?;
            let (la, lc) = as_prod(&kids[0].0)?;
            Some(final_eq(la, a) && final_eq(lc, c) && final_eq(t, &kids[0].1))
        })()
        .unwrap_or(false),
        DK::AssertR(_) => (|| {
            let (ab, c) = as_prod(s)?;
            let (_, b) = as_sum(ab)?;
            let (rb, rc) = as_prod(&kids[0].0)?;
            Some(final_eq(rb, b) && final_eq(rc, c) && final_eq(t, &kids[0].1))
        })()
        .unwrap_or(false),
        DK::Disc | DK::Disc1 => (|| {
            let (w, a) = as_prod(&kids[0].0)?;
            let (b, c) = as_prod(&kids[0].1)?;
            let (tb, td) = as_prod(t)?;
            let w_ok = w.bit_width() == 256 && !w.has_padding();
            let mut ok = w_ok && final_eq(a, s) && final_eq(tb, b);
            if *k == DK::Disc {
                ok = ok && final_eq(c, &kids[1].0) && final_eq(td, &kids[1].1);
            }
            Some(ok)
        })()
        .unwrap_or(false),
        DK::Witness | DK::Fail(_) => true,
        DK::Word(n) => matches!(s.bound(), CompleteBound::Unit) && t.bit_width() == (1usize << n) && !t.has_padding(),
        DK::Jet(i) => {
            let (a, b) = jet_final(family, *i);
            final_eq(s, &a) && final_eq(t, &b)
        }
    }
}

// ------------------------------------------------------------------------------------------
// library side: one history

struct Hist {
    /// construction of this node failed, with this error class
    failed: Option<(usize, String)>,
    finalize_err: Option<String>,
    accepted: bool,
    /// per node, from the construct node after finalisation
    arrows: Vec<Option<Arrow>>,
    /// per node, from the commit node (reachable part)
    commit_arrows: Vec<Option<Arrow>>,
    display_viol: Option<(String, String)>,
    injected_failed: bool,
    injected_attempted: bool,
    retry_succeeded: bool,
    observations: u64,
}

type N<'b> = Arc<ConstructNode<'b>>;

fn err_class(e: &types::Error) -> &'static str {
    match e {
        types::Error::Bind { .. } => "Bind",
        types::Error::CompleteTypeMismatch { .. } => "CompleteTypeMismatch",
        types::Error::OccursCheck { .. } => "OccursCheck",
        types::Error::InferenceContextMismatch => "InferenceContextMismatch",
        _ => "other",
    }
}

fn construct<'b>(
    ctx: &types::Context<'b>,
    family: Family,
    nd: &DNode,
    h: &[Option<N<'b>>],
) -> Option<Result<N<'b>, types::Error>> {
    let kid = |i: usize| -> Option<&N<'b>> { h[nd.kids[i]].as_ref() };
    Some(match &nd.k {
        DK::Iden => Ok(N::iden(ctx)),
        DK::Unit => Ok(N::unit(ctx)),
        DK::InjL => Ok(N::injl(kid(0)?)),
        DK::InjR => Ok(N::injr(kid(0)?)),
        DK::Take => Ok(N::take(kid(0)?)),
        DK::Drop => Ok(N::drop_(kid(0)?)),
        DK::Comp => N::comp(kid(0)?, kid(1)?),
        DK::Case => N::case(kid(0)?, kid(1)?),
        DK::Pair => N::pair(kid(0)?, kid(1)?),
        DK::AssertL(b) => N::assertl(kid(0)?, Cmr::from_byte_array([*b; 32])),
        DK::AssertR(b) => N::assertr(Cmr::from_byte_array([*b; 32]), kid(0)?),
        DK::Disc => N::disconnect(kid(0)?, &Some(Arc::clone(kid(1)?))),
        DK::Disc1 => N::disconnect(kid(0)?, &None),
        DK::Witness => Ok(N::witness(ctx, None)),
        DK::Fail(b) => Ok(N::fail(ctx, FailEntropy::from_byte_array([*b; 64]))),
        DK::Word(n) => {
            let bytes = vec![0x5au8; (1usize << n).div_ceil(8)];
            let w = Word::from_bits(&mut BitIter::new(bytes.into_iter()), u32::from(*n)).ok()?;
            Ok(N::const_word(ctx, w))
        }
        DK::Jet(i) => Ok(match family {
            Family::Core => N::jet(ctx, &Core::ALL[i % Core::ALL.len()]),
            Family::Elements => N::jet(ctx, &Elements::ALL[i % Elements::ALL.len()]),
        }),
    })
}

fn run_history(plan: &Plan, order: &[usize], has_parent: &[bool]) -> Hist {
    let n = plan.nodes.len();
    let mut hist = Hist {
        failed: None,
        finalize_err: None,
        accepted: false,
        arrows: vec![None; n],
        commit_arrows: vec![None; n],
        display_viol: None,
        injected_failed: false,
        injected_attempted: false,
        retry_succeeded: false,
        observations: 0,
    };
    types::Context::with_context(|ctx| {
        let mut h: Vec<Option<N>> = vec![None; n];
        let mut dropped = vec![false; n];
        for (step, &i) in order.iter().enumerate() {
            match construct(&ctx, plan.family, &plan.nodes[i], &h) {
                Some(Ok(node)) => h[i] = Some(node),
                Some(Err(e)) => {
                    if let Err(v) = check_display("types::Error", &e) {
                        hist.display_viol = Some(v);
                    }
                    hist.failed = Some((i, err_class(&e).to_owned()));
                    return;
                }
                None => {
                    hist.failed = Some((i, "harness:child-missing".into()));
                    return;
                }
            }
            if plan.drop_orphans && !has_parent[i] && i != plan.root {
                // abandoned expression: the handle goes away, its bindings stay in the context
                h[i] = None;
                dropped[i] = true;
            }
            // injected failed construction
            if let Some((at, nd)) = &plan.inject {
                if *at == step && nd.kids.iter().all(|k| h[*k].is_some()) {
                    hist.injected_attempted = true;
                    if let Some(Err(e)) = construct(&ctx, plan.family, nd, &h) {
                        hist.injected_failed = true;
                        if let Err(v) = check_display("types::Error", &e) {
                            hist.display_viol = Some(v);
                        }
                        // OBSERVATION, not an oracle: the same construction is attempted once
                        // more. The property is silent about a context after an error (false
                        // alarm 9), so a retry that succeeds is counted and reported in the
                        // evidence, never raised.
                        if let Some(Ok(_)) = construct(&ctx, plan.family, nd, &h) {
                            hist.retry_succeeded = true;
                        }
                    }
                }
            }
            // early observation: these take the context lock and run path halving
            if plan.observe_every > 0 && step % plan.observe_every == 0 {
                let j = order[(step * 7 + 3) % (step + 1)];
                if let Some(node) = &h[j] {
                    hist.observations += 1;
                    let a = node.arrow();
                    let mut b = Bounded { len: 0, cap: DISPLAY_CAP, overflow: false, head: String::new() };
                    let t0 = crate::sup::thread_cpu_secs();
                    let r = write!(b, "{}", a);
                    MAX_DISPLAY.fetch_max(b.len as u64, std::sync::atomic::Ordering::Relaxed);
                    if (b.overflow || r.is_err() || crate::sup::thread_cpu_secs() - t0 > display_secs()) && hist.display_viol.is_none() {
                        hist.display_viol = Some((
                            "Arrow:display:unbounded".into(),
                            format!("Display of an arrow wrote > {} bytes or took > {} CPU s", DISPLAY_CAP, display_secs()),
                        ));
                    }
                    let _ = a.source.final_data();
                    let _ = a.target.is_final();
                    let inc = a.target.to_incomplete();
                    drop(inc);
                }
            }
        }
        let root = match &h[plan.root] {
            Some(r) => Arc::clone(r),
            None => return,
        };
        let res: Result<Arc<CommitNode>, types::Error> =
            if plan.program { root.finalize_types() } else { root.finalize_types_non_program() };
        match res {
            Err(e) => {
                if let Err(v) = check_display("types::Error", &e) {
                    hist.display_viol = Some(v);
                }
                hist.finalize_err = Some(err_class(&e).to_owned());
            }
            Ok(commit) => {
                hist.accepted = true;
                // arrows through the commit DAG (parallel walk)
                let mut stack: Vec<(&CommitNode, usize)> = vec![(commit.as_ref(), plan.root)];
                while let Some((c, i)) = stack.pop() {
                    if hist.commit_arrows[i].is_some() {
                        continue;
                    }
                    hist.commit_arrows[i] = Some((Arc::clone(&c.arrow().source), Arc::clone(&c.arrow().target)));
                    let kids = &plan.nodes[i].kids;
                    match c.inner() {
                        Inner::InjL(x) | Inner::InjR(x) | Inner::Take(x) | Inner::Drop(x) => stack.push((x.as_ref(), kids[0])),
                        Inner::Comp(l, r) | Inner::Case(l, r) | Inner::Pair(l, r) => {
                            stack.push((l.as_ref(), kids[0]));
                            stack.push((r.as_ref(), kids[1]));
                        }
                        Inner::AssertL(l, _) => stack.push((l.as_ref(), kids[0])),
                        Inner::AssertR(_, r) => stack.push((r.as_ref(), kids[0])),
                        Inner::Disconnect(l, _) => stack.push((l.as_ref(), kids[0])),
                        _ => {}
                    }
                }
                // arrows through the construct nodes (every node still held)
                for i in 0..n {
                    if let Some(node) = &h[i] {
                        if let Ok(a) = node.arrow().finalize() {
                            hist.arrows[i] = Some((a.source, a.target));
                        }
                    }
                }
            }
        }
        let _ = dropped;
    });
    hist
}

// ------------------------------------------------------------------------------------------
// oracle

struct Viol {
    class: &'static str,
    key: String,
    msg: String,
}

#[derive(Default)]
struct Stats {
    histories: u64,
    accepted: u64,
    rejected_clash: u64,
    rejected_occurs: u64,
    rejected_root: u64,
    relaxed: u64,
    observations: u64,
    shared: bool,
    binary: bool,
    orders_distinct: usize,
    arrows_checked: u64,
    injected_failed: u64,
    retry_succeeded: u64,
}

fn exec(plan: &Plan, st: &mut Stats) -> Result<(), Viol> {
    let n = plan.nodes.len();
    let mut has_parent = vec![false; n];
    let mut refs = vec![0usize; n];
    for nd in &plan.nodes {
        for k in &nd.kids {
            has_parent[*k] = true;
            refs[*k] += 1;
        }
        if nd.k.arity() == 2 {
            st.binary = true;
        }
    }
    st.shared = refs.iter().any(|r| *r >= 2);
    // The injected construction is attempted in every history. When it succeeds its bindings stay
    // in the context like those of any other (orphan) node, so the reference is the model of
    // D + injected node; when it fails the rest of that history gets the relaxed oracle.
    let mut m_plain = run_model(plan, false);
    let mut m_inj = if plan.inject.is_some() { Some(run_model(plan, true)) } else { None };
    let mut distinct: HashSet<&Vec<usize>> = HashSet::new();
    for order in &plan.orders {
        distinct.insert(order);
        st.histories += 1;
        let h = run_history(plan, order, &has_parent);
        st.observations += h.observations;
        if let Some((key, msg)) = h.display_viol {
            return Err(Viol { class: "error-display", key, msg });
        }
        if let Some((_, c)) = &h.failed {
            if c.starts_with("harness") {
                continue;
            }
        }
        let m: &mut ModelOut = match (&mut m_inj, h.injected_attempted) {
            (Some(mi), true) => mi,
            _ => &mut m_plain,
        };
        let model_accepts = m.clash_at.is_none() && !m.root_clash && m.finite_reachable;
        let relaxed = h.injected_failed;
        if h.retry_succeeded {
            st.retry_succeeded += 1;
        }
        if h.injected_failed {
            st.injected_failed += 1;
        }
        if relaxed {
            st.relaxed += 1;
        }
        if h.accepted {
            st.accepted += 1;
        } else if h.failed.is_some() {
            st.rejected_clash += 1;
        } else if h.finalize_err.as_deref() == Some("OccursCheck") {
            st.rejected_occurs += 1;
        } else {
            st.rejected_root += 1;
        }
        let why_lib = || match (&h.failed, &h.finalize_err) {
            (Some((i, c)), _) => format!("constructor of node {} ({}) returned {}", i, plan.nodes[*i].k.name(), c),
            (_, Some(c)) => format!("finalisation returned {}", c),
            _ => "accepted".into(),
        };
        let why_model = |m: &ModelOut| {
            if let Some(i) = m.clash_at {
                format!("equations of node {} ({}) clash", i, plan.nodes.get(i).map(|x| x.k.name()).unwrap_or("injected node"))
            } else if m.root_clash {
                "root cannot be 1 -> 1".into()
            } else if !m.finite_reachable {
                "solution is infinite".into()
            } else {
                "finite solution exists".into()
            }
        };
        if !relaxed && h.accepted != model_accepts {
            let kind = if h.accepted { "silent-acceptance" } else { "false-rejection" };
            let detail = if h.accepted {
                if m.clash_at.is_some() || m.root_clash { "clash" } else { "infinite" }.to_owned()
            } else {
                match (&h.failed, &h.finalize_err) {
                    (Some((_, c)), _) => format!("ctor-{}", c),
                    (_, Some(c)) => format!("finalize-{}", c),
                    _ => "none".into(),
                }
            };
            return Err(Viol {
                class: "verdict",
                key: format!("{}:{}", kind, detail),
                msg: format!("order {:?}: library: {}; model: {}", order, why_lib(), why_model(m)),
            });
        }
        // After a failed (injected) construction the context holds the part of the failed node's
        // equations that was applied before the clash: a constraint set without a solution, about
        // which neither the property nor any destructive unifier (the reference model included)
        // promises anything. Such histories keep the crash/hang/bounded-rendering checks only.
        // (False alarm 9 in DESIGN.md: the local-rule check used to run here as well.)
        if h.accepted && !relaxed {
            // soundness (local rule) on every node we have an arrow for
            for i in 0..n {
                let me = match h.commit_arrows[i].as_ref().or(h.arrows[i].as_ref()) {
                    Some(a) => a,
                    None => continue,
                };
                let mut kid_arrows: Vec<&Arrow> = Vec::new();
                let mut have = true;
                for k in &plan.nodes[i].kids {
                    match h.arrows[*k].as_ref().or(h.commit_arrows[*k].as_ref()) {
                        Some(a) => kid_arrows.push(a),
                        None => have = false,
                    }
                }
                if !have {
                    continue;
                }
                st.arrows_checked += 1;
                if !local_rule_ok(plan.family, &plan.nodes[i].k, me, &kid_arrows) {
                    return Err(Viol {
                        class: "soundness",
                        key: format!("rule:{}", plan.nodes[i].k.name()),
                        msg: format!(
                            "order {:?}: node {} ({}) has arrow {} -> {} which breaks its typing rule against its children",
                            order,
                            i,
                            plan.nodes[i].k.name(),
                            short(&me.0),
                            short(&me.1)
                        ),
                    });
                }
                // the two observation points must agree
                if let (Some(a), Some(b)) = (&h.commit_arrows[i], &h.arrows[i]) {
                    if !final_eq(&a.0, &b.0) || !final_eq(&a.1, &b.1) {
                        return Err(Viol {
                            class: "soundness",
                            key: "commit-vs-construct-arrow".into(),
                            msg: format!("node {}: CommitNode::arrow differs from the finalised construct arrow", i),
                        });
                    }
                }
            }
            // principality against the model
            {
                for i in 0..n {
                    if !m.reachable[i] {
                        continue;
                    }
                    let me = match h.commit_arrows[i].as_ref().or(h.arrows[i].as_ref()) {
                        Some(a) => a,
                        None => continue,
                    };
                    let (ms, mt) = (m.s[i], m.t[i]);
                    if !m.st.principal_equals(ms, &me.0) || !m.st.principal_equals(mt, &me.1) {
                        let mut b = 40;
                        let want_s = m.st.render(ms, &mut b);
                        let mut b = 40;
                        let want_t = m.st.render(mt, &mut b);
                        return Err(Viol {
                            class: "principal",
                            key: format!("arrow:{}", plan.nodes[i].k.name()),
                            msg: format!(
                                "order {:?}: node {} ({}) has arrow {} -> {}, most general solution with free := 1 is {} -> {}",
                                order,
                                i,
                                plan.nodes[i].k.name(),
                                short(&me.0),
                                short(&me.1),
                                want_s,
                                want_t
                            ),
                        });
                    }
                }
            }
        }
    }
    st.orders_distinct = distinct.len();
    Ok(())
}

fn short(f: &Final) -> String {
    let mut b = Bounded { len: 0, cap: 200, overflow: false, head: String::new() };
    let _ = write!(b, "{}", f);
    let mut s = b.head;
    if b.overflow {
        s.push('…');
    }
    s
}

// ------------------------------------------------------------------------------------------
// generation

fn random_order(r: &mut Rng, nodes: &[DNode], prefer_high: bool) -> Vec<usize> {
    let n = nodes.len();
    let mut done = vec![false; n];
    let mut order = Vec::with_capacity(n);
    while order.len() < n {
        let ready: Vec<usize> = (0..n).filter(|i| !done[*i] && nodes[*i].kids.iter().all(|k| done[*k])).collect();
        let pick = if prefer_high { *ready.last().unwrap() } else { ready[r.usize_below(ready.len())] };
        done[pick] = true;
        order.push(pick);
    }
    order
}

fn all_orders(nodes: &[DNode], cap: usize) -> Vec<Vec<usize>> {
    let n = nodes.len();
    let mut res = Vec::new();
    let mut cur: Vec<usize> = Vec::new();
    let mut done = vec![false; n];
    fn go(nodes: &[DNode], cur: &mut Vec<usize>, done: &mut Vec<bool>, res: &mut Vec<Vec<usize>>, cap: usize) {
        if res.len() >= cap {
            return;
        }
        if cur.len() == nodes.len() {
            res.push(cur.clone());
            return;
        }
        for i in 0..nodes.len() {
            if !done[i] && nodes[i].kids.iter().all(|k| done[*k]) {
                done[i] = true;
                cur.push(i);
                go(nodes, cur, done, res, cap);
                cur.pop();
                done[i] = false;
            }
        }
    }
    go(nodes, &mut cur, &mut done, &mut res, cap);
    res
}

fn random_leaf(r: &mut Rng, family: Family, w: &[u32; 6]) -> DK {
    match r.weighted(w) {
        0 => DK::Iden,
        1 => DK::Unit,
        2 => DK::Witness,
        3 => DK::Fail(r.byte() & 3),
        4 => DK::Word(r.below(7) as u8),
        _ => DK::Jet(r.usize_below(family.n_jets())),
    }
}

fn random_dag(r: &mut Rng, family: Family, n: usize) -> Vec<DNode> {
    let mut leaf_w: [u32; 6] = [8, 6, 5, 1, 3, 4];
    let mut op_w: [u32; 12] = [5, 5, 5, 5, 9, 5, 9, 2, 2, 2, 2, 0];
    for x in leaf_w.iter_mut().chain(op_w.iter_mut()) {
        if r.chance(1, 5) {
            *x = 0;
        }
    }
    if leaf_w.iter().all(|x| *x == 0) {
        leaf_w[0] = 1;
    }
    if op_w.iter().all(|x| *x == 0) {
        op_w[4] = 1;
    }
    let p_leaf = r.range(15, 45);
    let mut nodes: Vec<DNode> = Vec::new();
    for i in 0..n {
        if i == 0 || r.below(100) < p_leaf {
            nodes.push(DNode { k: random_leaf(r, family, &leaf_w), kids: vec![] });
            continue;
        }
        let pick = |r: &mut Rng| -> usize {
            if r.chance(3, 5) {
                i - 1 - r.usize_below(i.min(3))
            } else {
                r.usize_below(i)
            }
        };
        let k = match r.weighted(&op_w) {
            0 => DK::InjL,
            1 => DK::InjR,
            2 => DK::Take,
            3 => DK::Drop,
            4 => DK::Comp,
            5 => DK::Case,
            6 => DK::Pair,
            7 => DK::AssertL(r.byte() & 3),
            8 => DK::AssertR(r.byte() & 3),
            9 => DK::Disc,
            _ => DK::Disc1,
        };
        let kids = match k.arity() {
            1 => vec![pick(r)],
            _ => {
                let a = pick(r);
                let b = if r.chance(3, 20) { a } else { pick(r) };
                vec![a, b]
            }
        };
        nodes.push(DNode { k, kids });
    }
    nodes
}

/// Structured families that target the state machine.
fn structured(r: &mut Rng, family: Family) -> (Vec<DNode>, &'static str) {
    let leaf = |k: DK| DNode { k, kids: vec![] };
    let un = |k: DK, a: usize| DNode { k, kids: vec![a] };
    let bin = |k: DK, a: usize, b: usize| DNode { k, kids: vec![a, b] };
    match r.below(8) {
        7 => {
            // a leaf that gets a type with one sub-type referenced three or more times from a
            // LATER sibling (finalisation then meets an incomplete bound several times)
            let mut v = vec![leaf(match r.below(3) {
                0 => DK::Witness,
                1 => DK::Iden,
                _ => DK::Fail(1),
            })];
            v.push(leaf(if r.bool() { DK::Iden } else { DK::Witness }));
            let base = 1;
            let mut top = base;
            for _ in 0..r.urange(2, 5) {
                let k = match r.below(5) {
                    0 => DK::InjL,
                    1 => DK::InjR,
                    _ => DK::Pair,
                };
                if k.arity() == 1 {
                    v.push(un(k, top));
                } else if r.bool() {
                    v.push(bin(k, top, base));
                } else {
                    v.push(bin(k, base, top));
                }
                top = v.len() - 1;
            }
            let b = match r.below(3) {
                0 => DK::Case,
                1 => DK::Comp,
                _ => DK::Pair,
            };
            if r.bool() {
                v.push(bin(b, 0, top));
            } else {
                v.push(bin(b, top, 0));
            }
            (v, "late-typed-leaf")
        }
        0 => {
            // occurs-check shapes: op2(x, unary(x)) and friends over one shared iden
            let mut v = vec![leaf(DK::Iden)];
            let u = match r.below(4) {
                0 => DK::Drop,
                1 => DK::Take,
                2 => DK::InjL,
                _ => DK::InjR,
            };
            v.push(un(u, 0));
            let b = match r.below(3) {
                0 => DK::Case,
                1 => DK::Comp,
                _ => DK::Pair,
            };
            if r.bool() {
                v.push(bin(b, 0, 1));
            } else {
                v.push(bin(b, 1, 0));
            }
            if r.bool() {
                v.push(leaf(DK::Unit));
                v.push(bin(DK::Comp, 2, 3));
            }
            (v, "occurs-shape")
        }
        1 => {
            // disconnect(iden, iden) and variations
            let mut v = vec![leaf(DK::Iden), leaf(if r.bool() { DK::Iden } else { DK::Witness })];
            let same = r.bool();
            v.push(bin(DK::Disc, 0, if same { 0 } else { 1 }));
            if r.bool() {
                v.push(un(DK::Take, 2));
                v.push(bin(DK::Pair, 2, 3));
            }
            (v, "disconnect-shape")
        }
        2 | 3 => {
            // type bombs: x -> pair(x, x) (or injl/injr wrapping) n times, complete or incomplete
            let n = match r.below(3) {
                0 => r.urange(2, 12),
                1 => r.urange(12, 30),
                _ => r.urange(30, 60),
            };
            let mut v = vec![leaf(match r.below(5) {
                0 => DK::Unit,
                1 => DK::Iden,
                2 => DK::Witness,
                3 => DK::Word(r.below(4) as u8),
                _ => DK::Jet(r.usize_below(family.n_jets())),
            })];
            let alt = r.below(4);
            // two-stage bombs: a complete bomb of medium size (2^5 .. 2^13 nodes) becomes the
            // leaf of an incomplete one, so that an error has to render many complete sub-types
            // that each fit a display budget on their own
            let two_stage = r.chance(1, 3);
            let (n, stage1) = if two_stage { (r.urange(8, 18), r.urange(4, 13)) } else { (n, 0) };
            if two_stage {
                v[0] = leaf(match r.below(3) {
                    0 => DK::Unit,
                    1 => DK::Word(r.below(3) as u8),
                    _ => DK::Jet(r.usize_below(family.n_jets())),
                });
                if r.bool() {
                    v.push(leaf(DK::Unit));
                    v.push(bin(DK::Pair, 0, 1));
                }
                for _ in 0..stage1 {
                    let top = v.len() - 1;
                    v.push(bin(DK::Pair, top, top));
                }
                let top = v.len() - 1;
                v.push(leaf(if r.bool() { DK::Witness } else { DK::Iden }));
                if r.bool() {
                    v.push(bin(DK::Pair, top + 1, top));
                } else {
                    v.push(bin(DK::Pair, top, top + 1));
                }
            }
            for i in 0..n {
                let top = v.len() - 1;
                if alt == 0 && i % 3 == 2 {
                    v.push(un(if r.bool() { DK::InjL } else { DK::InjR }, top));
                } else {
                    v.push(bin(DK::Pair, top, top));
                }
            }
            match if two_stage { r.below(2) * 4 } else { r.below(5) } {
                4 => {
                    // a consumer whose source is 1: the bomb's target cannot be unified with it
                    let top = v.len() - 1;
                    v.push(leaf(DK::Word(r.below(3) as u8)));
                    let w = v.len() - 1;
                    v.push(bin(DK::Comp, top, w));
                }
                0 => {
                    // an ill-typed consumer on top: the error mentions the bomb
                    let top = v.len() - 1;
                    v.push(leaf(DK::Iden));
                    let i = v.len() - 1;
                    v.push(bin(DK::Case, i, i));
                    let c = v.len() - 1;
                    v.push(bin(DK::Comp, top, c));
                }
                1 => {
                    let top = v.len() - 1;
                    v.push(leaf(DK::Unit));
                    let u = v.len() - 1;
                    v.push(bin(DK::Comp, top, u));
                }
                2 => {
                    // two bombs that must be unified with each other
                    let top = v.len() - 1;
                    let mid = top / 2;
                    v.push(bin(DK::Comp, top, mid));
                }
                _ => {}
            }
            (v, if two_stage { "type-bomb-two-stage" } else { "type-bomb" })
        }
        4 => {
            // long comp chains (path halving)
            let n = r.urange(6, 28);
            let mut v = vec![leaf(DK::Iden)];
            for _ in 0..n {
                let top = v.len() - 1;
                v.push(leaf(if r.chance(4, 5) { DK::Iden } else { DK::Unit }));
                let i = v.len() - 1;
                if r.bool() {
                    v.push(bin(DK::Comp, top, i));
                } else {
                    v.push(bin(DK::Comp, i, top));
                }
            }
            (v, "comp-chain")
        }
        5 => {
            // fails only at the final 1 -> 1 unification
            let mut v = vec![leaf(match r.below(3) {
                0 => DK::Word(r.below(6) as u8),
                1 => DK::Jet(r.usize_below(family.n_jets())),
                _ => DK::Unit,
            })];
            for _ in 0..r.urange(0, 4) {
                let top = v.len() - 1;
                v.push(un(
                    match r.below(4) {
                        0 => DK::InjL,
                        1 => DK::InjR,
                        2 => DK::Take,
                        _ => DK::Drop,
                    },
                    top,
                ));
            }
            (v, "root-only-failure")
        }
        _ => {
            // deeply shared diamond lattice
            let mut v = vec![leaf(DK::Iden), leaf(DK::Unit)];
            for _ in 0..r.urange(3, 12) {
                let n = v.len();
                let a = n - 1 - r.usize_below(2);
                let b = n - 1 - r.usize_below(2);
                v.push(bin(if r.chance(2, 3) { DK::Pair } else { DK::Comp }, a, b));
            }
            (v, "diamond")
        }
    }
}

fn gen_plan(r: &mut Rng, tier: Tier) -> (Plan, &'static str) {
    let family = if r.chance(1, 4) { Family::Elements } else { Family::Core };
    let (nodes, fam) = if r.chance(3, 10) {
        structured(r, family)
    } else {
        let n = match r.below(4) {
            0 => r.urange(2, 6),
            1 => r.urange(4, 10),
            _ => r.urange(6, 30),
        };
        (random_dag(r, family, n), "random")
    };
    let n = nodes.len();
    let root = n - 1;
    let mut orders: Vec<Vec<usize>> = Vec::new();
    if n <= 6 {
        orders = all_orders(&nodes, 720);
    } else {
        orders.push((0..n).collect());
        orders.push(random_order(r, &nodes, true));
        for _ in 0..tier.pick(4, 12) {
            orders.push(random_order(r, &nodes, false));
        }
        orders.dedup();
    }
    // injected failed construction: a node over D's nodes that is likely ill-typed
    let inject = if r.chance(1, 5) && n >= 2 {
        let a = r.usize_below(n);
        let b = r.usize_below(n);
        let k = match r.below(4) {
            0 => DK::Comp,
            1 => DK::Case,
            2 => DK::Pair,
            _ => DK::Disc,
        };
        Some((r.usize_below(n), DNode { k, kids: vec![a, b] }))
    } else {
        None
    };
    (
        Plan {
            family,
            nodes,
            root,
            program: r.bool(),
            orders,
            observe_every: if r.chance(1, 3) { r.urange(1, 4) } else { 0 },
            inject,
            drop_orphans: r.chance(1, 4),
        },
        fam,
    )
}

// ------------------------------------------------------------------------------------------

impl C04 {
    /// The plan run `run` of the main engine executes (used by the lock-discipline leg).
    pub fn plan_for(seed: u64, tier: Tier) -> Plan {
        let mut r = Rng::new(seed);
        gen_plan(&mut r, tier).0
    }

    pub fn exec_plan(&self, plan: &Plan, out: &mut RunOut) {
        out.trace(|| plan.to_json());
        let mut st = Stats::default();
        let r = guard(|| exec(plan, &mut st));
        let nontrivial = (st.shared || st.binary) && st.orders_distinct >= 2;
        out.eval(plan.hash(), nontrivial);
        out.gauge_max("max_display_bytes", MAX_DISPLAY.load(std::sync::atomic::Ordering::Relaxed));
        out.count("histories", st.histories);
        out.count("histories_accepted", st.accepted);
        out.count("histories_rejected_by_constructor", st.rejected_clash);
        out.count("histories_rejected_by_occurs_check", st.rejected_occurs);
        out.count("histories_rejected_at_root_or_finalize", st.rejected_root);
        out.count("histories_relaxed_after_injected_failure", st.relaxed);
        out.count("fault_injected_failed_construction", st.injected_failed);
        out.count("observation_retry_of_failed_construction_succeeded", st.retry_succeeded);
        out.count("fault_early_observation", st.observations);
        out.count("arrows_checked", st.arrows_checked);
        if plan.drop_orphans {
            out.count("fault_abandoned_orphans_plans", 1);
        }
        if plan.nodes.len() <= 6 {
            out.count("dags_with_all_orders", 1);
        }
        match r {
            Ok(Ok(())) => {}
            Ok(Err(v)) => out.violation(v.class, &v.key, v.msg, || plan.to_json()),
            Err(p) => out.violation("panic", &panic_key(&p), p, || plan.to_json()),
        }
    }
}

impl Engine for C04 {
    fn property_id(&self) -> String {
        "C04".into()
    }
    fn engine_name(&self) -> String {
        "c04-inference-sim".into()
    }
    fn level(&self) -> &'static str {
        "exploration"
    }
    fn rule(&self) -> String {
        "A run is one combinator DAG (random over all sixteen node kinds incl. every Core/Elements jet as a typed leaf, not filtered \
         for well-typedness, with forced sharing; or a structured family: occurs-check shapes, disconnect shapes, type bombs up to 60 \
         levels with an ill-typed consumer, long comp chains, root-only failures, diamond lattices) built in one inference context in \
         several construction orders (all topological orders when the DAG has <= 6 nodes; otherwise index order, highest-first order \
         and seeded random topological orders), optionally with injected faults: a failed construction attempted mid-history, early \
         observations (Display of arrows, final_data, to_incomplete) between steps, handles of parentless nodes dropped. Each history \
         is compared with an independent rational-tree unifier: verdict, principal types of every node (CommitNode::arrow and the \
         finalised construct arrow), local typing rule, bounded rendering of every error. An evaluation is one DAG with all its \
         orders; non-trivial = the DAG has a shared node or a binary combinator and at least two distinct orders ran; distinct = \
         distinct plan."
            .into()
    }
    fn assumptions(&self) -> Vec<String> {
        vec![
            "models/unify.rs implements first-order unification over rational trees + finiteness of the reachable quotient graph (unit tests in the module)".into(),
            "jet source/target types are read from the library's tables (C14's business)".into(),
            "finiteness is required of the types of nodes reachable from the root (children of disconnect included), which is what finalisation visits".into(),
            "after an injected failed construction only soundness (local typing rule), bounded errors and absence of panics are demanded for the rest of that history".into(),
            "bounded error rendering: Display and Debug of every returned error must fit in 4 MiB and finish within 10 s (wall clock is used only as a failure detector)".into(),
        ]
    }
    fn components(&self) -> Json {
        json!({
            "real": ["types::Context / Type / Arrow / union-bound / Incomplete / Final", "ConstructNode constructors", "finalize_types / finalize_types_non_program", "CommitNode::arrow", "Display/Debug of types::Error"],
            "stub": ["construction order (the schedule of the history)", "2 MiB worker stack"],
            "model": ["hash-consed first-order terms, unification by decomposition closure, acyclicity of the quotient graph, principal type by free := 1"],
        })
    }
    fn n_runs(&self, tier: Tier) -> u64 {
        tier.pick(160_000, 3_000_000)
    }
    fn worker_stack(&self) -> usize {
        2 << 20
    }
    fn hang_secs(&self) -> u64 {
        // a history costs well under a millisecond; rendering an error may take up to 10 s
        25
    }
    fn run(&self, run: u64, seed: u64, tier: Tier, out: &mut RunOut) {
        let mut r = Rng::new(seed);
        // the first runs of every batch sweep the jet tables: every Core and Elements jet once as a
        // typed leaf ("all Core/Elements jets as typed leaves" is a finite set: it is enumerated,
        // not sampled), in two small DAGs each
        let n_core = Family::Core.n_jets() as u64;
        let n_all = n_core + Family::Elements.n_jets() as u64;
        let (plan, fam) = if run < 2 * n_all {
            let i = run % n_all;
            let (family, idx) = if i < n_core { (Family::Core, i as usize) } else { (Family::Elements, (i - n_core) as usize) };
            let leaf = |k: DK| DNode { k, kids: vec![] };
            let nodes = if run < n_all {
                // comp(jet, unit): the jet's arrow as the library builds it from the type names
                vec![leaf(DK::Jet(idx)), leaf(DK::Unit), DNode { k: DK::Comp, kids: vec![0, 1] }]
            } else {
                // pair(jet, jet) with sharing, under a take: source and target are used twice
                vec![leaf(DK::Jet(idx)), DNode { k: DK::Pair, kids: vec![0, 0] }, DNode { k: DK::Take, kids: vec![1] }]
            };
            let orders = all_orders(&nodes, 720);
            (Plan { family, nodes, root: 2, program: false, orders, observe_every: 1, inject: None, drop_orphans: false }, "jet-sweep")
        } else {
            gen_plan(&mut r, tier)
        };
        out.count(&format!("family_{}", fam.replace('-', "_")), 1);
        out.sample(|| plan.to_json());
        self.exec_plan(&plan, out);
    }
    fn replay(&self, plan: &Json, out: &mut RunOut) {
        if let Some(p) = Plan::from_json(plan) {
            self.exec_plan(&p, out);
        }
    }
    fn shrink(&self, plan: &Json) -> Vec<Json> {
        let p = match Plan::from_json(plan) {
            Some(p) => p,
            None => return vec![],
        };
        let mut c: Vec<Plan> = Vec::new();
        // fewer orders
        if p.orders.len() > 1 {
            for i in 0..p.orders.len() {
                let mut q = p.clone();
                q.orders = vec![p.orders[i].clone()];
                c.push(q);
            }
            let mut q = p.clone();
            q.orders.truncate(p.orders.len() / 2);
            c.push(q);
        }
        if p.inject.is_some() {
            let mut q = p.clone();
            q.inject = None;
            c.push(q);
        }
        if p.observe_every > 0 {
            let mut q = p.clone();
            q.observe_every = 0;
            c.push(q);
        }
        if p.drop_orphans {
            let mut q = p.clone();
            q.drop_orphans = false;
            c.push(q);
        }
        // remove a node that nothing refers to (not the root), renumbering
        let n = p.nodes.len();
        let mut refd = vec![false; n];
        for nd in &p.nodes {
            for k in &nd.kids {
                refd[*k] = true;
            }
        }
        for i in (0..n).rev() {
            if !refd[i] && i != p.root && n > 1 {
                let mut q = p.clone();
                q.nodes.remove(i);
                let fix = |k: usize| if k > i { k - 1 } else { k };
                for nd in q.nodes.iter_mut() {
                    for k in nd.kids.iter_mut() {
                        *k = fix(*k);
                    }
                }
                q.root = fix(p.root);
                q.orders = p.orders.iter().map(|o| o.iter().filter(|x| **x != i).map(|x| fix(*x)).collect()).collect();
                if let Some((s, nd)) = &p.inject {
                    if nd.kids.contains(&i) {
                        q.inject = None;
                    } else {
                        q.inject = Some((*s, DNode { k: nd.k.clone(), kids: nd.kids.iter().map(|k| fix(*k)).collect() }));
                    }
                }
                c.push(q);
            }
        }
        // make the root a child of the current root
        if p.root > 0 {
            for k in &p.nodes[p.root].kids {
                let mut q = p.clone();
                q.root = *k;
                c.push(q);
            }
        }
        // replace a unary/binary node by one of its children (bypass)
        for i in 0..n {
            if p.nodes[i].kids.is_empty() {
                continue;
            }
            let to = p.nodes[i].kids[0];
            let mut q = p.clone();
            for nd in q.nodes.iter_mut().skip(i + 1) {
                for k in nd.kids.iter_mut() {
                    if *k == i {
                        *k = to;
                    }
                }
            }
            if q.root == i {
                q.root = to;
            }
            c.push(q);
        }
        // simplify leaves
        for i in 0..n {
            if matches!(p.nodes[i].k, DK::Jet(_) | DK::Word(_) | DK::Fail(_) | DK::Witness) {
                let mut q = p.clone();
                q.nodes[i].k = DK::Iden;
                c.push(q);
                let mut q = p.clone();
                q.nodes[i].k = DK::Unit;
                c.push(q);
            }
        }
        c.into_iter().filter(|q| *q != p).map(|q| q.to_json()).collect()
    }
    fn expected_probes(&self, _tier: Tier) -> Vec<&'static str> {
        vec![
            "histories_accepted",
            "histories_rejected_by_constructor",
            "histories_rejected_by_occurs_check",
            "histories_rejected_at_root_or_finalize",
            "fault_injected_failed_construction",
            "fault_early_observation",
            "fault_abandoned_orphans_plans",
            "dags_with_all_orders",
            "family_type_bomb",
            "family_type_bomb_two_stage",
            "family_jet_sweep",
            "family_occurs_shape",
        ]
    }
}

