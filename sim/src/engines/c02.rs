//! C02 — the decoder is total and accepts only the canonical encoding.
//!
//! One producer (the real encoder over generated programs, plus an independent bit assembler),
//! one lossy channel (two SimStreams with injected truncation / corruption), one consumer (the
//! real decoders), on a thread whose stack size is part of the plan, in a child process with an
//! address-space cap, with a counting allocator.

use crate::alloc;
use crate::engines::asm;
use crate::gen::programs::{self, Family};
use crate::pool::StackPool;
use crate::rng::{Fnv, Rng};
use crate::stream::{hex, unhex, SimStream};
use crate::sup::{guard, panic_key, Engine, RunOut, Tier};
use serde_json::{json, Value as Json};
use simplicity::jet::{Core, Elements, Jet};
use simplicity::node::Inner;
use simplicity::{BitIter, CommitNode, ConstructNode, RedeemNode};
use std::cell::RefCell;
use std::collections::BTreeMap;

pub struct C02;

pub const STACKS: [usize; 3] = [256 << 10, 2 << 20, 8 << 20];

#[derive(Clone, Copy, Debug, PartialEq, Eq)]
pub enum Decoder {
    Redeem,
    Commit,
    Construct,
}

impl Decoder {
    fn name(self) -> &'static str {
        match self {
            Decoder::Redeem => "redeem",
            Decoder::Commit => "commit",
            Decoder::Construct => "construct",
        }
    }
    fn from_name(s: &str) -> Decoder {
        match s {
            "commit" => Decoder::Commit,
            "construct" => Decoder::Construct,
            _ => Decoder::Redeem,
        }
    }
}

#[derive(Clone, Debug)]
pub struct Plan {
    pub decoder: Decoder,
    pub family: Family,
    pub stack_idx: usize,
    pub program: Vec<u8>,
    pub witness: Vec<u8>,
    /// informational: how the delivered bytes were obtained
    pub origin: String,
    /// expected verdict when known: Some(true) = must decode and re-encode to itself
    pub must_accept: bool,
    /// hand-assembled encodings that break exactly one canonicity rule must be rejected
    pub must_reject: Option<String>,
}

impl Plan {
    pub fn to_json(&self) -> Json {
        json!({
            "site": format!("c02:{}:{}", self.decoder.name(), self.family.name()),
            "decoder": self.decoder.name(),
            "jets": self.family.name(),
            "stack_bytes": STACKS[self.stack_idx],
            "rlimit_as": RLIMIT,
            "program_hex": hex(&self.program),
            "witness_hex": hex(&self.witness),
            "origin": self.origin,
            "must_accept": self.must_accept,
            "must_reject": self.must_reject,
        })
    }
    pub fn from_json(j: &Json) -> Plan {
        let sb = j["stack_bytes"].as_u64().unwrap_or(STACKS[1] as u64) as usize;
        Plan {
            decoder: Decoder::from_name(j["decoder"].as_str().unwrap_or("redeem")),
            family: Family::from_name(j["jets"].as_str().unwrap_or("core")),
            stack_idx: STACKS.iter().position(|s| *s == sb).unwrap_or(1),
            program: unhex(j["program_hex"].as_str().unwrap_or("")),
            witness: unhex(j["witness_hex"].as_str().unwrap_or("")),
            origin: j["origin"].as_str().unwrap_or("").to_owned(),
            must_accept: j["must_accept"].as_bool().unwrap_or(false),
            must_reject: j["must_reject"].as_str().map(|s| s.to_owned()),
        }
    }
    fn hash(&self) -> u64 {
        let mut h = Fnv::new();
        h.str(self.decoder.name());
        h.str(self.family.name());
        h.bytes(&self.program);
        h.u8(0xfe);
        h.bytes(&self.witness);
        h.0
    }
}

const RLIMIT: u64 = 6 << 30;
/// CPU-time budget of one decoder call (decode + re-encode + drop) on <= 4 KiB of input
const SMALL_INPUT_CPU_MS: u64 = 10_000;

#[derive(Debug, Default, Clone)]
struct Outcome {
    accepted: bool,
    err: String,
    viol: Option<(String, String, String)>,
    pulls_p: u64,
    pulls_w: u64,
    peak: usize,
    /// thread CPU time of the call (decode + re-encode + drop), milliseconds
    cpu_ms: u64,
    biggest: usize,
    nodes: usize,
    dup_free: bool,
    /// an 'unshared-duplicate' variant that turned out to be a different canonical program
    excused: bool,
}

/// Error class by structural match. Errors are deliberately NOT rendered here: bounded rendering
/// of type errors is C04's clause (and a known weak spot), not C02's.
fn ty_class(e: &simplicity::types::Error) -> &'static str {
    use simplicity::types::Error as T;
    match e {
        T::Bind { .. } => "Bind",
        T::CompleteTypeMismatch { .. } => "CompleteTypeMismatch",
        T::OccursCheck { .. } => "OccursCheck",
        T::InferenceContextMismatch => "InferenceContextMismatch",
        _ => "other",
    }
}

fn dec_class(e: &simplicity::decode::Error) -> String {
    use simplicity::decode::Error as D;
    match e {
        D::BitIter(simplicity::BitIterCloseError::TrailingBytes { .. }) => "BitIter/TrailingBytes".into(),
        D::BitIter(simplicity::BitIterCloseError::IllegalPadding { .. }) => "BitIter/IllegalPadding".into(),
        D::BothChildrenHidden => "BothChildrenHidden".into(),
        D::EndOfStream => "EndOfStream".into(),
        D::HiddenNode => "HiddenNode".into(),
        D::InvalidJet => "InvalidJet".into(),
        D::Natural(n) => format!("Natural/{}", format!("{:?}", n).chars().take_while(|c| c.is_ascii_alphabetic()).collect::<String>()),
        D::NotInCanonicalOrder => "NotInCanonicalOrder".into(),
        D::SharingNotMaximal => "SharingNotMaximal".into(),
        D::Type(t) => format!("Type/{}", ty_class(t)),
        _ => "other".into(),
    }
}

pub fn dec_or_type(e: &simplicity::DecodeError) -> String {
    err_class(e)
}

fn err_class(e: &simplicity::DecodeError) -> String {
    match e {
        simplicity::DecodeError::Decode(d) => format!("Decode/{}", dec_class(d)),
        simplicity::DecodeError::DisconnectRedeemTime => "DisconnectRedeemTime".into(),
        simplicity::DecodeError::Type(t) => format!("Type/{}", ty_class(t)),
        _ => "other".into(),
    }
}

fn has_disconnect_branch(program: &[u8], family: Family) -> bool {
    fn go<J: Jet>(program: &[u8]) -> bool {
        simplicity::types::Context::with_context(|ctx| {
            let (s, _) = SimStream::new(program.to_vec());
            match ConstructNode::decode::<_, J>(&ctx, BitIter::new(s)) {
                Ok(n) => {
                    use simplicity::dag::{DagLike, InternalSharing};
                    n.as_ref()
                        .post_order_iter::<InternalSharing>()
                        .any(|d| matches!(d.node.inner(), Inner::Disconnect(_, Some(_))))
                }
                Err(_) => false,
            }
        })
    }
    match family {
        Family::Core => go::<Core>(program),
        Family::Elements => go::<Elements>(program),
    }
}

/// The job that runs on the plan's stack. Everything decoded is dropped before it returns.
fn decode_job(plan: Plan) -> Outcome {
    let mut o = Outcome::default();
    let start = alloc::reset();
    let cpu0 = crate::sup::thread_cpu_secs();
    let r = guard(|| {
        let (ps, pp) = SimStream::new(plan.program.clone());
        let (ws, wp) = SimStream::new(plan.witness.clone());
        let mut viol = None;
        let mut accepted = false;
        let mut err = String::new();
        let mut nodes = 0usize;
        // no two distinct nodes of an accepted program carry the same identity hash
        let mut dup_free = true;
        match plan.decoder {
            Decoder::Redeem => {
                let res = programs::decode_jet_family(plan.family, BitIter::new(ps), BitIter::new(ws));
                match res {
                    Ok(p) => {
                        accepted = true;
                        let (p2, w2) = p.to_vec_with_witness();
                        if p2 != plan.program {
                            viol = Some((
                                "T2-reencode".to_owned(),
                                "redeem:program-differs".to_owned(),
                                format!("accepted program {} re-encodes to {}", hex(&plan.program), hex(&p2)),
                            ));
                        } else if w2 != plan.witness {
                            viol = Some((
                                "T2-reencode".to_owned(),
                                "redeem:witness-differs".to_owned(),
                                format!("accepted witness {} re-encodes to {}", hex(&plan.witness), hex(&w2)),
                            ));
                        }
                        {
                            use simplicity::dag::{DagLike, InternalSharing};
                            nodes = p.as_ref().post_order_iter::<InternalSharing>().count();
                            // are any two distinct nodes of the result identical (same identity hash)?
                            let mut seen = std::collections::HashSet::new();
                            dup_free = p.as_ref().post_order_iter::<InternalSharing>().all(|d| seen.insert(d.node.ihr()));
                        }
                        drop(p);
                    }
                    Err(e) => {
                        err = err_class(&e);
                        drop(e);
                    }
                }
            }
            Decoder::Commit => {
                let res = match plan.family {
                    Family::Core => CommitNode::decode::<_, Core>(BitIter::new(ps)),
                    Family::Elements => CommitNode::decode::<_, Elements>(BitIter::new(ps)),
                };
                match res {
                    Ok(p) => {
                        accepted = true;
                        {
                            use simplicity::dag::{DagLike, InternalSharing};
                            let mut seen = std::collections::HashSet::new();
                            dup_free = p
                                .as_ref()
                                .post_order_iter::<InternalSharing>()
                                .all(|d| d.node.ihr().map(|h| seen.insert(h)).unwrap_or(true));
                        }
                        let p2 = p.to_vec_without_witness();
                        if p2 != plan.program {
                            // carve-out: an attached disconnect branch is accepted and discarded
                            if !has_disconnect_branch(&plan.program, plan.family) {
                                viol = Some((
                                    "T2-reencode".to_owned(),
                                    "commit:program-differs".to_owned(),
                                    format!("accepted program {} re-encodes to {}", hex(&plan.program), hex(&p2)),
                                ));
                            }
                        }
                        drop(p);
                    }
                    Err(e) => {
                        err = err_class(&e);
                    }
                }
            }
            Decoder::Construct => {
                let res: Result<(), String> = simplicity::types::Context::with_context(|ctx| {
                    let r = match plan.family {
                        Family::Core => ConstructNode::decode::<_, Core>(&ctx, BitIter::new(ps)),
                        Family::Elements => ConstructNode::decode::<_, Elements>(&ctx, BitIter::new(ps)),
                    };
                    match r {
                        Ok(n) => {
                            drop(n);
                            Ok(())
                        }
                        Err(e) => Err(dec_class(&e)),
                    }
                });
                match res {
                    Ok(()) => accepted = true,
                    Err(e) => err = e,
                }
            }
        }
        (accepted, err, viol, pp.get(), wp.get(), nodes, dup_free)
    });
    let (peak, biggest) = alloc::peak_since(start);
    o.cpu_ms = ((crate::sup::thread_cpu_secs() - cpu0) * 1000.0) as u64;
    o.peak = peak;
    o.biggest = biggest;
    match r {
        Ok((accepted, err, viol, pp, wp, nodes, dup_free)) => {
            o.dup_free = dup_free;
            o.accepted = accepted;
            o.err = err;
            o.viol = viol;
            o.pulls_p = pp;
            o.pulls_w = wp;
            o.nodes = nodes;
        }
        Err(p) => {
            o.err = "panic".into();
            o.viol = Some(("T1-panic".into(), format!("{}:{}", plan.decoder.name(), panic_key(&p)), p));
        }
    }
    if o.viol.is_none() {
        let lp = plan.program.len() as u64;
        let lw = plan.witness.len() as u64;
        if o.pulls_p > lp + 8 || o.pulls_w > lw + 8 {
            o.viol = Some((
                "T1-pulls".into(),
                format!("{}:stream-over-pulled", plan.decoder.name()),
                format!("program {} bytes pulled {} times, witness {} bytes pulled {} times", lp, o.pulls_p, lw, o.pulls_w),
            ));
        }
        // "never hangs", scaled: a call on at most 4 KiB of delivered input gets 10 s of thread
        // CPU time (measured maximum on the unchanged tree under full load: 0.4 s); longer calls
        // on larger inputs are left to the watchdog
        if lp + lw <= 4096 && o.cpu_ms > SMALL_INPUT_CPU_MS {
            o.viol = Some((
                "T1-time".into(),
                format!("{}:slow-on-small-input", plan.decoder.name()),
                format!("{} ms of CPU time for {}+{} input bytes; budget {} ms", o.cpu_ms, lp, lw, SMALL_INPUT_CPU_MS),
            ));
        }
        let budget = HEAP_CONST + HEAP_PER_BYTE * (plan.program.len() + plan.witness.len());
        if o.peak > budget {
            o.viol = Some((
                "T1-heap".into(),
                format!("{}:peak-heap", plan.decoder.name()),
                format!(
                    "peak live heap {} bytes (largest single allocation {}) for {}+{} input bytes; budget {}",
                    o.peak,
                    o.biggest,
                    plan.program.len(),
                    plan.witness.len(),
                    budget
                ),
            ));
        }
    }
    if o.viol.is_none() {
        if plan.must_accept && !o.accepted {
            o.viol = Some((
                "fault-free-roundtrip".into(),
                format!("{}:valid-encoding-rejected", plan.decoder.name()),
                format!("encoder output rejected with {} ({})", o.err, plan.origin),
            ));
        }
        if let Some(rule) = &plan.must_reject {
            // Giving one parent its own copy of a shared node also removes the type equation the
            // sharing implied; when the copies then get different types they are different nodes
            // (different identity hashes) and the encoding is the canonical one of a different,
            // valid program. The duplicate rule is broken only if two identical nodes survive.
            // (False alarm 10 in DESIGN.md.)
            let excused = rule == "unshared-duplicate" && o.dup_free;
            if o.accepted && excused {
                o.excused = true;
            }
            if o.accepted && !excused {
                o.viol = Some((
                    "canonicity".into(),
                    format!("{}:accepted:{}", plan.decoder.name(), rule),
                    format!("hand-assembled encoding violating '{}' was accepted", rule),
                ));
            }
        }
    }
    o
}

/// 48 MiB + 16 KiB per delivered byte (see DESIGN.md 3.3; MAX_INITIAL_ALLOC is 32 MiB by design).
const HEAP_CONST: usize = 48 << 20;
const HEAP_PER_BYTE: usize = 16 << 10;

thread_local! {
    static POOL: RefCell<StackPool> = RefCell::new(StackPool::new(&STACKS));
}

// ------------------------------------------------------------------------------------------
// stream faults

#[derive(Clone, Debug)]
enum Fault {
    Truncate(bool, usize),
    Flip(bool, usize),
    Overwrite(bool, usize, Vec<u8>),
    Insert(bool, usize, Vec<u8>),
    Delete(bool, usize, usize),
    Duplicate(bool, usize, usize),
    SwapChunks(bool, usize, usize, usize),
    Append(bool, Vec<u8>),
    SetPadding(bool, u8),
    SwapStreams,
    Empty(bool),
}

impl Fault {
    fn kind(&self) -> &'static str {
        match self {
            Fault::Truncate(..) => "truncate",
            Fault::Flip(..) => "bitflip",
            Fault::Overwrite(..) => "overwrite",
            Fault::Insert(..) => "insert",
            Fault::Delete(..) => "delete",
            Fault::Duplicate(..) => "duplicate",
            Fault::SwapChunks(..) => "swap_chunks",
            Fault::Append(..) => "append",
            Fault::SetPadding(..) => "set_padding",
            Fault::SwapStreams => "swap_streams",
            Fault::Empty(..) => "empty_stream",
        }
    }
    fn apply(&self, p: &mut Vec<u8>, w: &mut Vec<u8>) {
        fn pick<'a>(wit: bool, p: &'a mut Vec<u8>, w: &'a mut Vec<u8>) -> &'a mut Vec<u8> {
            if wit {
                w
            } else {
                p
            }
        }
        match self {
            Fault::Truncate(s, at) => {
                let v = pick(*s, p, w);
                v.truncate((*at).min(v.len()))
            }
            Fault::Flip(s, bit) => {
                let v = pick(*s, p, w);
                if !v.is_empty() {
                    let b = bit % (v.len() * 8);
                    v[b / 8] ^= 0x80 >> (b % 8);
                }
            }
            Fault::Overwrite(s, at, bytes) => {
                let v = pick(*s, p, w);
                for (i, b) in bytes.iter().enumerate() {
                    if at + i < v.len() {
                        v[at + i] = *b;
                    }
                }
            }
            Fault::Insert(s, at, bytes) => {
                let v = pick(*s, p, w);
                let at = (*at).min(v.len());
                for (i, b) in bytes.iter().enumerate() {
                    v.insert(at + i, *b);
                }
            }
            Fault::Delete(s, at, len) => {
                let v = pick(*s, p, w);
                let at = (*at).min(v.len());
                let end = (at + len).min(v.len());
                v.drain(at..end);
            }
            Fault::Duplicate(s, at, len) => {
                let v = pick(*s, p, w);
                let at = (*at).min(v.len());
                let end = (at + len).min(v.len());
                let chunk: Vec<u8> = v[at..end].to_vec();
                for (i, b) in chunk.iter().enumerate() {
                    v.insert(end + i, *b);
                }
            }
            Fault::SwapChunks(s, a, b, len) => {
                let v = pick(*s, p, w);
                for i in 0..*len {
                    if a + i < v.len() && b + i < v.len() {
                        v.swap(a + i, b + i);
                    }
                }
            }
            Fault::Append(s, bytes) => pick(*s, p, w).extend_from_slice(bytes),
            Fault::SetPadding(s, mask) => {
                let v = pick(*s, p, w);
                if let Some(l) = v.last_mut() {
                    *l |= mask;
                }
            }
            Fault::SwapStreams => std::mem::swap(p, w),
            Fault::Empty(s) => pick(*s, p, w).clear(),
        }
    }
}

fn random_fault(r: &mut Rng, lp: usize, lw: usize) -> Fault {
    let s = lw > 0 && r.chance(2, 5);
    let l = if s { lw } else { lp }.max(1);
    match r.weighted(&[4, 6, 3, 3, 3, 2, 2, 4, 3, 1, 1]) {
        0 => Fault::Truncate(s, r.usize_below(l + 1)),
        1 => Fault::Flip(s, r.usize_below(l * 8)),
        2 => {
            let n = r.urange(1, 4);
            Fault::Overwrite(s, r.usize_below(l), r.bytes(n))
        }
        3 => {
            let n = r.urange(1, 3);
            Fault::Insert(s, r.usize_below(l + 1), r.bytes(n))
        }
        4 => Fault::Delete(s, r.usize_below(l), r.urange(1, 3)),
        5 => Fault::Duplicate(s, r.usize_below(l), r.urange(1, 4)),
        6 => Fault::SwapChunks(s, r.usize_below(l), r.usize_below(l), r.urange(1, 3)),
        7 => Fault::Append(
            s,
            match r.below(4) {
                0 => vec![0x00],
                1 => vec![0x80],
                2 => vec![0xff],
                _ => {
                    let n = r.urange(1, 3);
                    r.bytes(n)
                }
            },
        ),
        8 => Fault::SetPadding(s, 1 << r.below(7)),
        9 => Fault::SwapStreams,
        _ => Fault::Empty(s),
    }
}

// ------------------------------------------------------------------------------------------

impl C02 {
    fn exec_plan(&self, plan: &Plan, out: &mut RunOut, fault_kinds: &[&'static str]) -> Outcome {
        out.trace(|| plan.to_json());
        let idx = plan.stack_idx;
        let p2 = plan.clone();
        let o = POOL.with(|p| p.borrow_mut().run(idx, move || decode_job(p2)));
        let nontrivial = !fault_kinds.is_empty() && (o.accepted || o.pulls_p > 1);
        out.eval(plan.hash(), nontrivial);
        for k in fault_kinds {
            out.count(&format!("fault_fired_{}", k), 1);
        }
        if o.excused {
            out.count("unshared_duplicate_variants_that_are_distinct_programs", 1);
        }
        out.count(if o.accepted { "decoded_ok" } else { "decoded_err" }, 1);
        out.count(&format!("decoder_{}", plan.decoder.name()), 1);
        out.count(&format!("stack_{}k", STACKS[plan.stack_idx] >> 10), 1);
        if !o.err.is_empty() {
            out.count(&format!("err_{}", o.err), 1);
        }
        out.gauge_max("max_peak_heap_bytes", o.peak as u64);
        out.gauge_max("max_single_alloc_bytes", o.biggest as u64);
        out.gauge_max("max_cpu_ms_per_call", o.cpu_ms);
        if plan.program.len() + plan.witness.len() <= 4096 {
            out.gauge_max("max_cpu_ms_per_call_input_le_4KiB", o.cpu_ms);
        }
        out.gauge_max("max_nodes_decoded", o.nodes as u64);
        let ratio = (o.peak as u64) / (plan.program.len() as u64 + plan.witness.len() as u64 + 64);
        out.gauge_max("max_peak_heap_per_input_byte", ratio);
        if let Some((c, k, m)) = &o.viol {
            out.violation(c, k, m.clone(), || plan.to_json());
        }
        o
    }

    /// Run the three decoders (redeem with witness; commit/construct on the program) on one
    /// delivered pair.
    fn deliver(
        &self,
        family: Family,
        program: &[u8],
        witness: &[u8],
        origin: &str,
        kinds: &[&'static str],
        r: &mut Rng,
        out: &mut RunOut,
        all_decoders: bool,
        must_accept: bool,
        must_reject: Option<&str>,
    ) -> Outcome {
        let stack_idx = r.weighted(&[2, 3, 1]);
        let plan = Plan {
            decoder: Decoder::Redeem,
            family,
            stack_idx,
            program: program.to_vec(),
            witness: witness.to_vec(),
            origin: origin.to_owned(),
            must_accept,
            must_reject: must_reject.map(|s| s.to_owned()),
        };
        let o = self.exec_plan(&plan, out, kinds);
        if all_decoders {
            for d in [Decoder::Commit, Decoder::Construct] {
                let mut p = plan.clone();
                p.decoder = d;
                p.witness.clear();
                p.must_accept = false;
                // canonicity rules about sharing are decided on identity hashes that differ
                // between commitment and redemption time; only assert rejection for redeem
                p.must_reject = None;
                self.exec_plan(&p, out, kinds);
            }
        }
        o
    }
}

fn corpus_vectors() -> Vec<(Vec<u8>, Vec<u8>)> {
    use simplicity::ffi::tests as t;
    vec![
        {
            let d = t::schnorr0_test_data();
            (d.prog, d.witness)
        },
        {
            let d = t::schnorr6_test_data();
            (d.prog, d.witness)
        },
        {
            let d = t::ctx8_pruned_test_data();
            (d.prog, d.witness)
        },
        {
            let d = t::ctx8_unpruned_test_data();
            (d.prog, d.witness)
        },
    ]
}

impl Engine for C02 {
    fn property_id(&self) -> String {
        "C02".into()
    }
    fn engine_name(&self) -> String {
        "c02-streamsim".into()
    }
    fn level(&self) -> &'static str {
        "fault_enumeration"
    }
    fn rule(&self) -> String {
        "A run takes one base encoding (real encoder over a generated redemption program: random stack-machine recipes over all \
         combinators, Core or Elements jets, witnesses, assertions, disconnect, words, sharing, type bombs, deep nesting; or a \
         libsimplicity test vector; or PRNG bytes), delivers it fault-free (must decode and re-encode to itself) and then under \
         stream faults: for base encodings up to the size bound EVERY truncation point and EVERY single-bit flip on both streams, \
         plus sampled 2-4-fault sequences (overwrite, insert, delete, duplicate, swap chunks, append 00/80/ff/random, set padding \
         bits, swap streams, empty stream), plus encodings assembled by an independent bit assembler from the decoded node list \
         with exactly one canonicity rule broken. Each delivered pair goes to RedeemNode::decode (and CommitNode::decode / \
         ConstructNode::decode for program-stream faults) on a thread whose stack size (256 KiB / 2 MiB / 8 MiB) is part of the \
         plan, in a child process with RLIMIT_AS, under a counting allocator; whatever is decoded is dropped inside the run. \
         An evaluation is one decoder call; non-trivial = at least one fault applied and the decoder got past the first byte \
         (or accepted); distinct = distinct (decoder, family, delivered program, delivered witness)."
            .into()
    }
    fn assumptions(&self) -> Vec<String> {
        vec![
            "heap bound: peak live bytes during a call <= 48 MiB + 16 KiB x delivered bytes (MAX_INITIAL_ALLOC = 32 MiB is a deliberate constant of the library)".into(),
            "stream pulls <= len + 8 per stream (read_u2 / close may legitimately ask again after the end)".into(),
            "CommitNode re-encoding clause skipped when ConstructNode::decode of the same bytes shows a disconnect node with an attached branch (carve-out in the quantifier)".into(),
            "Bitcoin jet family excluded (quantifier)".into(),
            "hang detection: 60 s without progress in a worker whose normal cost per call is < 10 ms".into(),
        ]
    }
    fn components(&self) -> Json {
        json!({
            "real": ["RedeemNode::decode", "CommitNode::decode", "ConstructNode::decode", "encoder (to_vec_with_witness / to_vec_without_witness)", "type inference, IHR/CMR computation, Value decoding", "Core and Elements jet tables"],
            "stub": ["SimStream x2 (program, witness) with pull counters", "thread stack sized by the plan", "RLIMIT_AS", "counting global allocator"],
            "model": ["independent bit assembler for node lists (Appendix B)", "re-encoding equality as canonicity oracle"],
        })
    }
    fn n_runs(&self, tier: Tier) -> u64 {
        // 839 jet-sweep runs, then seeded bases
        tier.pick(839 + 1200, 839 + 120_000)
    }
    fn rlimit_as(&self) -> u64 {
        RLIMIT
    }
    fn worker_stack(&self) -> usize {
        512 << 20
    }

    fn run(&self, run: u64, seed: u64, tier: Tier, out: &mut RunOut) {
        let mut r = Rng::new(seed);
        let family = if r.chance(1, 3) { Family::Elements } else { Family::Core };
        // ---- the first runs of every batch sweep the jet tables: one small valid program per Core
        // and Elements jet (the jet applied to a witness), delivered fault-free to all three
        // decoders: every jet's bit code must decode to the jet that encodes to it
        let n_core = Family::Core.n_jets() as u64;
        let n_all = n_core + Family::Elements.n_jets() as u64;
        if run < n_all {
            let (fam, idx) = if run < n_core { (Family::Core, run as usize) } else { (Family::Elements, (run - n_core) as usize) };
            let rec = programs::Recipe { family: fam, ops: vec![programs::GOp::JetApplied(idx)], close: programs::Close::Early, wit_seed: r.next_u64() };
            match programs::build(&rec) {
                Some(b) => {
                    out.count("jet_sweep_programs", 1);
                    let (p, w) = b.redeem.to_vec_with_witness();
                    self.deliver(fam, &p, &w, "jet-sweep", &[], &mut r, out, true, true, None);
                }
                None => out.count("jet_sweep_not_buildable", 1),
            }
            return;
        }
        // ---- choose the base encoding
        let kind = r.weighted(&[60, 6, 8, 6, 10, 6, 6, 3]);
        let (program, witness, origin): (Vec<u8>, Vec<u8>, String) = match kind {
            0 => {
                let size = match r.below(4) {
                    0 => r.urange(1, 6),
                    1 => r.urange(4, 16),
                    _ => r.urange(8, 48),
                };
                let rec = programs::random_recipe(&mut r, family, size);
                match programs::build(&rec) {
                    Some(b) => {
                        out.count("recipes_built", 1);
                        let (p, w) = b.redeem.to_vec_with_witness();
                        (p, w, format!("recipe:{:?}", rec.ops).chars().take(300).collect())
                    }
                    None => {
                        out.count("recipes_discarded", 1);
                        return;
                    }
                }
            }
            1 => {
                // deep nesting: enough levels to exhaust an 8 MiB stack at ~32 bytes per level
                let n = match r.below(4) {
                    0 => r.range(1000, 5000),
                    1 => r.range(5000, 60_000),
                    2 => r.range(60_000, 150_000),
                    _ => r.range(150_000, tier.pick(220_000, 300_000)),
                } as u32;
                // one in six: two deep incomplete types unified with each other. Unification
                // recurses per level (known finding F5), so the depth stays below what the
                // smallest simulated stack takes; the recorded overflow is replayed from
                // regressions/ on every batch instead of being re-found at random.
                let deep_unify = r.chance(1, 6);
                let n = if deep_unify { r.range(50, 500) as u32 } else { n };
                let rec = if deep_unify { programs::deep_unify_recipe(&mut r, family, n) } else { programs::deep_recipe(&mut r, family, n) };
                match programs::build(&rec) {
                    Some(b) => {
                        out.count("deep_recipes_built", 1);
                        if deep_unify {
                            out.count("deep_unify_recipes_built", 1);
                        }
                        let (p, w) = b.redeem.to_vec_with_witness();
                        (p, w, format!("deep:n={}:{:?}", n, rec.close))
                    }
                    None => {
                        out.count("recipes_discarded", 1);
                        return;
                    }
                }
            }
            2 => {
                let rec = programs::heavy_recipe(&mut r, family);
                match programs::build(&rec) {
                    Some(b) => {
                        out.count("heavy_recipes_built", 1);
                        let (p, w) = b.redeem.to_vec_with_witness();
                        (p, w, format!("heavy:{:?}", rec.ops))
                    }
                    None => {
                        out.count("recipes_discarded", 1);
                        return;
                    }
                }
            }
            3 => {
                let v = corpus_vectors();
                let (p, w) = v[r.usize_below(v.len())].clone();
                out.count("libsimplicity_vectors", 1);
                // these are Elements programs
                return self.run_base(Family::Elements, p, w, "libsimplicity-vector".into(), &mut r, tier, out, run);
            }
            5 => {
                let rec = programs::assert_recipe(&mut r, family);
                match programs::build(&rec) {
                    Some(b) => {
                        out.count("assert_recipes_built", 1);
                        let (p, w) = b.redeem.to_vec_with_witness();
                        (p, w, format!("asserts:{:?}", rec.ops).chars().take(300).collect())
                    }
                    None => {
                        out.count("recipes_discarded", 1);
                        return;
                    }
                }
            }
            6 => {
                // source-type bomb: commitment-time bytes + an arbitrary witness stream. The witness
                // type is up to 2^70 bits wide; the decoder must fail gracefully (no fault-free
                // round trip here: the program cannot be populated)
                // every other time a TARGET-type bomb instead: a well-typed constant of up to
                // 2^76 bits that `unit` swallows; needs no witness data, so the empty witness
                // stream is a valid redemption (the generator cannot finalise it at redemption
                // time itself, hence the commitment-time bytes here too)
                if r.chance(1, 3) {
                    // ILL-TYPED bomb, hand assembled: a leaf whose type is still free, squared k
                    // times (an incomplete type that is a DAG of k nodes and a tree of 2^k), then
                    // composed with something it cannot be: the decoder must reject it, and the
                    // rejection (the error value it builds, returns and drops) must cost what the
                    // DAG costs, not what the tree costs
                    use crate::engines::asm::ANode as A;
                    let k = r.urange(12, 46);
                    let mut nodes = vec![if r.bool() { A::Iden } else { A::Witness }];
                    for i in 0..k {
                        nodes.push(match r.below(4) {
                            0 if i > 0 => A::Pair(i, i - 1),
                            _ => A::Pair(i, i),
                        });
                    }
                    let top = k;
                    // clash partner: wants a sum where the bomb is a product, or a product of a
                    // sum where the bomb has a product of products
                    let n = nodes.len();
                    match r.below(3) {
                        0 => {
                            nodes.push(A::Unit);
                            nodes.push(A::Case(n, n));
                            nodes.push(A::Comp(top, n + 1));
                        }
                        1 => {
                            nodes.push(A::Unit);
                            nodes.push(A::InjL(n));
                            nodes.push(A::Case(n + 1, n + 1));
                            nodes.push(A::Take(n + 2));
                            nodes.push(A::Comp(top, n + 3));
                        }
                        _ => {
                            nodes.push(A::Unit);
                            nodes.push(A::Case(n, n));
                            nodes.push(A::Pair(top, n + 1));
                        }
                    }
                    if let Some(p) = crate::engines::asm::assemble(&nodes, None) {
                        out.count("ill_typed_bomb_bases", 1);
                        let o = self.deliver(family, &p, &[], "ill-typed incomplete type bomb (assembler)", &["hand_assembled"], &mut r, out, true, false, None);
                        if o.accepted {
                            out.count("ill_typed_bomb_accepted", 1);
                        }
                    }
                    return;
                }
                let target = r.bool();
                let rec = if target { programs::target_bomb_recipe(&mut r, family) } else { programs::source_bomb_recipe(&mut r, family) };
                match programs::build_commit_bytes(&rec) {
                    Some(p) => {
                        if target {
                            out.count("target_bomb_bases", 1);
                            self.deliver(family, &p, &[], "target-type bomb + empty witness", &[], &mut r, out, true, false, None);
                        }
                        out.count("source_bomb_bases", 1);
                        for _ in 0..6 {
                            let m = r.urange(0, 40);
                            let w = r.bytes(m);
                            self.deliver(family, &p, &w, "source-type bomb + arbitrary witness", &["prng_witness"], &mut r, out, true, false, None);
                        }
                    }
                    None => out.count("recipes_discarded", 1),
                }
                return;
            }
            7 => {
                // a word node that announces up to 2^31 bits and delivers almost none
                let n = r.range(12, 31);
                let mut p = crate::engines::asm::assemble(&[crate::engines::asm::ANode::WordHeaderOnly(n + 1)], None).unwrap_or_default();
                // the header ends inside the last byte: keep its bits, append a little data
                let extra = r.urange(0, 6);
                p.extend(r.bytes(extra));
                out.count("huge_word_header_bases", 1);
                self.deliver(family, &p, &[], "word header announcing 2^n bits, truncated", &["truncate"], &mut r, out, true, false, None);
                return;
            }
            _ => {
                let n = r.urange(0, 40);
                let m = r.urange(0, 8);
                let mut p = r.bytes(n);
                if r.bool() && !p.is_empty() {
                    // bias the length prefix towards small programs so decoding gets somewhere
                    p[0] = 0b1100_0000 | (p[0] & 0x3f);
                }
                out.count("prng_byte_strings", 1);
                let w = r.bytes(m);
                let o = self.deliver(family, &p, &w, "prng-bytes", &["prng_bytes"], &mut r, out, true, false, None);
                let _ = o;
                return;
            }
        };
        self.run_base(family, program, witness, origin, &mut r, tier, out, run);
    }

    fn replay(&self, plan: &Json, out: &mut RunOut) {
        let p = Plan::from_json(plan);
        self.exec_plan(&p, out, &["replay"]);
    }

    fn shrink(&self, plan: &Json) -> Vec<Json> {
        let p = Plan::from_json(plan);
        let mut c: Vec<Plan> = Vec::new();
        if p.must_accept || p.must_reject.is_some() {
            // the bytes are the encoder's / assembler's output: shrinking them changes the question
            return Vec::new();
        }
        if !p.witness.is_empty() {
            let mut q = p.clone();
            q.witness.truncate(p.witness.len() / 2);
            c.push(q);
            let mut q = p.clone();
            q.witness.pop();
            c.push(q);
        }
        if p.program.len() <= 96 {
            for i in 0..p.program.len() {
                let mut q = p.clone();
                q.program.remove(i);
                c.push(q);
            }
            for i in 0..p.witness.len().min(64) {
                let mut q = p.clone();
                q.witness.remove(i);
                c.push(q);
            }
            for i in 0..p.program.len() {
                if p.program[i] != 0 {
                    let mut q = p.clone();
                    q.program[i] = 0;
                    c.push(q);
                }
            }
        }
        c.into_iter().map(|q| q.to_json()).collect()
    }

    fn expected_probes(&self, _tier: Tier) -> Vec<&'static str> {
        vec![
            "fault_fired_truncate",
            "fault_fired_bitflip",
            "fault_fired_append",
            "fault_fired_insert",
            "fault_fired_set_padding",
            "decoded_ok",
            "decoded_err",
            "deep_recipes_built",
            "stack_256k",
            "asm_validated_against_encoder",
            "canon_unused_node",
            "canon_swapped_order",
            "canon_unshared_duplicate",
            "canon_repeated_hidden_node",
            "source_bomb_bases",
            "jet_sweep_programs",
            "huge_word_header_bases",
        ]
    }

    fn extra_coverage(&self, c: &BTreeMap<String, u64>) -> Json {
        json!({
            "heap_budget": format!("{} + {} x delivered bytes", HEAP_CONST, HEAP_PER_BYTE),
            "measured_max_peak_heap_bytes": c.get("max_peak_heap_bytes").copied().unwrap_or(0),
            "measured_max_single_alloc_bytes": c.get("max_single_alloc_bytes").copied().unwrap_or(0),
"cpu_budget_small_inputs": format!("{} ms of thread CPU time per call on <= 4096 delivered bytes", SMALL_INPUT_CPU_MS),
            "measured_max_thread_cpu_ms_per_call": c.get("max_cpu_ms_per_call").copied().unwrap_or(0),
            "measured_max_thread_cpu_ms_per_call_input_le_4KiB": c.get("max_cpu_ms_per_call_input_le_4KiB").copied().unwrap_or(0),
        })
    }
}

impl C02 {
    #[allow(clippy::too_many_arguments)]
    fn run_base(
        &self,
        family: Family,
        program: Vec<u8>,
        witness: Vec<u8>,
        origin: String,
        r: &mut Rng,
        tier: Tier,
        out: &mut RunOut,
        run: u64,
    ) {
        out.sample(|| json!({"base_program_hex": hex(&program[..program.len().min(80)]), "program_bytes": program.len(), "witness_bytes": witness.len(), "origin": origin, "jets": family.name()}));
        // ---- fault-free configuration
        let o = self.deliver(family, &program, &witness, &origin, &[], r, out, true, true, None);
        out.count("fault_free_deliveries", 1);
        if out.violations.iter().any(|v| v.run == run) {
            return;
        }
        let _ = o;
        let lp = program.len();
        let lw = witness.len();
        let bound = tier.pick(64, 256);
        let big = lp > 4096;
        // ---- enumerated single faults
        if lp <= bound {
            out.count("bases_fully_enumerated", 1);
            for k in 0..lp {
                let mut p = program.clone();
                let mut w = witness.clone();
                Fault::Truncate(false, k).apply(&mut p, &mut w);
                self.deliver(family, &p, &w, "truncate program", &["truncate"], r, out, true, false, None);
            }
            for k in 0..lw {
                let mut p = program.clone();
                let mut w = witness.clone();
                Fault::Truncate(true, k).apply(&mut p, &mut w);
                self.deliver(family, &p, &w, "truncate witness", &["truncate"], r, out, false, false, None);
            }
            for b in 0..lp * 8 {
                let mut p = program.clone();
                let mut w = witness.clone();
                Fault::Flip(false, b).apply(&mut p, &mut w);
                self.deliver(family, &p, &w, "flip program bit", &["bitflip"], r, out, b % 4 == 0, false, None);
            }
            for b in 0..lw * 8 {
                let mut p = program.clone();
                let mut w = witness.clone();
                Fault::Flip(true, b).apply(&mut p, &mut w);
                self.deliver(family, &p, &w, "flip witness bit", &["bitflip"], r, out, false, false, None);
            }
            for ext in [[0x00u8], [0x80], [0xff]] {
                for s in [false, true] {
                    let mut p = program.clone();
                    let mut w = witness.clone();
                    Fault::Append(s, ext.to_vec()).apply(&mut p, &mut w);
                    self.deliver(family, &p, &w, "append byte", &["append"], r, out, !s, false, None);
                }
            }
            for bit in 0..7 {
                for s in [false, true] {
                    let mut p = program.clone();
                    let mut w = witness.clone();
                    Fault::SetPadding(s, 1 << bit).apply(&mut p, &mut w);
                    if p != program || w != witness {
                        self.deliver(family, &p, &w, "set padding bit", &["set_padding"], r, out, !s, false, None);
                    }
                }
            }
        } else {
            // sampled single faults (large encodings): truncations are what creates late failures
            let n = if big { 6 } else { 40 };
            for _ in 0..n {
                let f = match r.below(3) {
                    0 => Fault::Truncate(true, r.usize_below(lw + 1)),
                    1 => Fault::Truncate(false, if r.bool() { lp - r.usize_below(lp.min(64)) - 1 } else { r.usize_below(lp) }),
                    _ => Fault::Flip(r.bool() && lw > 0, r.usize_below(lp.max(lw) * 8)),
                };
                let mut p = program.clone();
                let mut w = witness.clone();
                f.apply(&mut p, &mut w);
                self.deliver(family, &p, &w, f.kind(), &[f.kind()], r, out, !big, false, None);
            }
        }
        // ---- sampled multi-fault sequences
        let n_multi = if big { 2 } else { tier.pick(12, 24) };
        for _ in 0..n_multi {
            let k = r.urange(2, 4);
            let mut p = program.clone();
            let mut w = witness.clone();
            let mut kinds: Vec<&'static str> = Vec::new();
            for _ in 0..k {
                let f = random_fault(r, p.len(), w.len());
                f.apply(&mut p, &mut w);
                kinds.push(f.kind());
            }
            kinds.push("multi");
            self.deliver(family, &p, &w, "multi-fault", &kinds, r, out, true, false, None);
        }
        // ---- canonicity: independent assembler over the decoded node list
        if !big {
            asm::canonicity_variants(self, family, &program, &witness, r, out);
        }
    }

    /// Entry point for the assembler module.
    #[allow(clippy::too_many_arguments)]
    pub fn deliver_asm(
        &self,
        family: Family,
        program: &[u8],
        witness: &[u8],
        rule: Option<&str>,
        must_accept: bool,
        r: &mut Rng,
        out: &mut RunOut,
    ) -> bool {
        let kinds: Vec<&'static str> = if rule.is_some() { vec!["hand_assembled"] } else { vec![] };
        let o = self.deliver(
            family,
            program,
            witness,
            &format!("assembler:{}", rule.unwrap_or("valid")),
            &kinds,
            r,
            out,
            true,
            must_accept,
            rule,
        );
        o.accepted
    }
}

#[allow(dead_code)]
fn _unused(_: &RedeemNode) {}
