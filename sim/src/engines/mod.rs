pub mod asm;
pub mod c02;
pub mod c04;
pub mod c13;
pub mod valsim;
