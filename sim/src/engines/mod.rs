pub mod c13;
