//! C13 — bit streams and natural numbers code exactly.
//!
//! World: `BitWriter<SimSink>` (write-back cache in front of a fallible device), `BitIter<SimStream>`
//! (read cache in front of a source that can end), models = bit vector + reference natural codec.
//! Faults are enumerated: for every generated history, every underlying sink call index x every
//! failure kind, and every EOF position of the source.

use crate::models::bits::{bits_of_u64, pack, unpack};
use crate::models::natural::{self, Decoded};
use crate::rng::{Fnv, Rng};
use crate::stream::{hex, unhex, SimSink, SimStream, SinkFault};
use crate::sup::{guard, panic_key, Engine, RunOut, Tier};
use serde_json::{json, Value as Json};
use simplicity::encode::{encode_hash, encode_natural, encode_value};
use simplicity::{BitCollector, BitIter, BitWriter, Value};
use std::cell::RefCell;
use std::io::{self, Write};
use std::rc::Rc;

pub struct C13;

#[derive(Clone, Debug, PartialEq)]
pub enum WOp {
    Bit(bool),
    Bits(u64, usize),
    Bytes(Vec<u8>),
    Nat(u64),
    Hash(Vec<u8>),
    /// word value of 2^n bits (n <= 6) with the given integer
    Word(u32, u64),
    FlushAll,
    Flush,
    Count,
}

#[derive(Clone, Copy, Debug, PartialEq)]
pub enum NTy {
    U8,
    U16,
    U32,
    U64,
    U128,
    Usize,
    I8,
    I16,
    I32,
    I64,
    I128,
    Isize,
}

impl NTy {
    fn name(self) -> &'static str {
        match self {
            NTy::U8 => "u8",
            NTy::U16 => "u16",
            NTy::U32 => "u32",
            NTy::U64 => "u64",
            NTy::U128 => "u128",
            NTy::Usize => "usize",
            NTy::I8 => "i8",
            NTy::I16 => "i16",
            NTy::I32 => "i32",
            NTy::I64 => "i64",
            NTy::I128 => "i128",
            NTy::Isize => "isize",
        }
    }
    fn from_name(s: &str) -> NTy {
        match s {
            "u8" => NTy::U8,
            "u16" => NTy::U16,
            "u32" => NTy::U32,
            "u64" => NTy::U64,
            "u128" => NTy::U128,
            "i8" => NTy::I8,
            "i16" => NTy::I16,
            "i32" => NTy::I32,
            "i64" => NTy::I64,
            "i128" => NTy::I128,
            "isize" => NTy::Isize,
            _ => NTy::Usize,
        }
    }
    /// largest value of the type (as far as naturals are concerned)
    fn max(self) -> u128 {
        match self {
            NTy::U8 => u128::from(u8::MAX),
            NTy::U16 => u128::from(u16::MAX),
            NTy::U32 => u128::from(u32::MAX),
            NTy::U64 => u128::from(u64::MAX),
            NTy::U128 => u128::MAX,
            NTy::Usize => usize::MAX as u128,
            NTy::I8 => i8::MAX as u128,
            NTy::I16 => i16::MAX as u128,
            NTy::I32 => i32::MAX as u128,
            NTy::I64 => i64::MAX as u128,
            NTy::I128 => i128::MAX as u128,
            NTy::Isize => isize::MAX as u128,
        }
    }
    /// smallest value of the type
    fn min(self) -> i128 {
        match self {
            NTy::I8 => i128::from(i8::MIN),
            NTy::I16 => i128::from(i16::MIN),
            NTy::I32 => i128::from(i32::MIN),
            NTy::I64 => i128::from(i64::MIN),
            NTy::I128 => i128::MIN,
            NTy::Isize => isize::MIN as i128,
            _ => 0,
        }
    }
    const ALL: [NTy; 12] = [
        NTy::U8,
        NTy::U16,
        NTy::U32,
        NTy::U64,
        NTy::U128,
        NTy::Usize,
        NTy::I8,
        NTy::I16,
        NTy::I32,
        NTy::I64,
        NTy::I128,
        NTy::Isize,
    ];
}

#[derive(Clone, Debug, PartialEq)]
pub enum ROp {
    Bit,
    Next,
    U2,
    U8,
    Cmr,
    Fail,
    /// result type and bound (negative bounds are possible for signed result types)
    Nat(NTy, Option<i128>),
    Len,
    Count,
}

#[derive(Clone, Debug, PartialEq)]
pub enum Source {
    /// what the writer phase left in the sink
    Sink,
    /// the same, but the source ends after k bytes
    SinkEof(usize),
    /// arbitrary bytes
    Bytes(Vec<u8>),
}

#[derive(Clone, Debug, PartialEq)]
pub struct Plan {
    pub wops: Vec<WOp>,
    pub faults: Vec<(u64, SinkFault)>,
    /// the sink accepts at most this many bytes per write call (0 = no limit): short writes
    pub trickle: usize,
    pub source: Source,
    pub window: Option<(usize, usize)>,
    pub rops: Vec<ROp>,
    pub close: bool,
    pub collect: bool,
}

// ------------------------------------------------------------------------------------------
// JSON

fn wop_json(o: &WOp) -> Json {
    match o {
        WOp::Bit(b) => json!(["bit", u8::from(*b)]),
        WOp::Bits(n, l) => json!(["bits", n.to_string(), l]),
        WOp::Bytes(b) => json!(["bytes", hex(b)]),
        WOp::Nat(n) => json!(["nat", n.to_string()]),
        WOp::Hash(b) => json!(["hash", hex(b)]),
        WOp::Word(n, v) => json!(["word", n, v.to_string()]),
        WOp::FlushAll => json!(["flush_all"]),
        WOp::Flush => json!(["flush"]),
        WOp::Count => json!(["count"]),
    }
}

fn pu64(j: &Json) -> u64 {
    match j {
        Json::String(s) => s.parse().unwrap_or(0),
        other => other.as_u64().unwrap_or(0),
    }
}

fn wop_from(j: &Json) -> Option<WOp> {
    Some(match j[0].as_str()? {
        "bit" => WOp::Bit(pu64(&j[1]) != 0),
        "bits" => WOp::Bits(pu64(&j[1]), (pu64(&j[2]) as usize).min(64)),
        "bytes" => WOp::Bytes(unhex(j[1].as_str()?)),
        "nat" => WOp::Nat(pu64(&j[1]).max(1)),
        "hash" => WOp::Hash(unhex(j[1].as_str()?)),
        "word" => WOp::Word((pu64(&j[1]) as u32).min(6), pu64(&j[2])),
        "flush_all" => WOp::FlushAll,
        "flush" => WOp::Flush,
        "count" => WOp::Count,
        _ => return None,
    })
}

fn rop_json(o: &ROp) -> Json {
    match o {
        ROp::Bit => json!(["bit"]),
        ROp::Next => json!(["next"]),
        ROp::U2 => json!(["u2"]),
        ROp::U8 => json!(["u8"]),
        ROp::Cmr => json!(["cmr"]),
        ROp::Fail => json!(["fail"]),
        ROp::Nat(t, b) => json!(["nat", t.name(), b.map(|b| b.to_string())]),
        ROp::Len => json!(["len"]),
        ROp::Count => json!(["count"]),
    }
}

fn rop_from(j: &Json) -> Option<ROp> {
    Some(match j[0].as_str()? {
        "bit" => ROp::Bit,
        "next" => ROp::Next,
        "u2" => ROp::U2,
        "u8" => ROp::U8,
        "cmr" => ROp::Cmr,
        "fail" => ROp::Fail,
        "nat" => ROp::Nat(
            NTy::from_name(j[1].as_str().unwrap_or("usize")),
            match &j[2] {
                Json::Null => None,
                Json::String(s) => s.parse::<i128>().ok(),
                o => o.as_i64().map(i128::from),
            },
        ),
        "len" => ROp::Len,
        "count" => ROp::Count,
        _ => return None,
    })
}

impl Plan {
    pub fn to_json(&self) -> Json {
        json!({
            "site": "c13-history",
            "wops": self.wops.iter().map(wop_json).collect::<Vec<_>>(),
            "sink_faults": self.faults.iter().map(|(i, f)| json!([i, f.name()])).collect::<Vec<_>>(),
            "sink_max_accept": self.trickle,
            "source": match &self.source {
                Source::Sink => json!("sink"),
                Source::SinkEof(k) => json!({"sink_eof_after_bytes": k}),
                Source::Bytes(b) => json!({"bytes": hex(b)}),
            },
            "window": self.window.map(|(s, e)| json!([s, e])),
            "rops": self.rops.iter().map(rop_json).collect::<Vec<_>>(),
            "close": self.close,
            "collect": self.collect,
        })
    }

    pub fn from_json(j: &Json) -> Plan {
        Plan {
            wops: j["wops"]
                .as_array()
                .map(|a| a.iter().filter_map(wop_from).collect())
                .unwrap_or_default(),
            faults: j["sink_faults"]
                .as_array()
                .map(|a| {
                    a.iter()
                        .filter_map(|e| Some((pu64(&e[0]), SinkFault::from_name(e[1].as_str()?)?)))
                        .collect()
                })
                .unwrap_or_default(),
            trickle: j["sink_max_accept"].as_u64().unwrap_or(0) as usize,
            source: if let Some(k) = j["source"].get("sink_eof_after_bytes") {
                Source::SinkEof(pu64(k) as usize)
            } else if let Some(b) = j["source"].get("bytes") {
                Source::Bytes(unhex(b.as_str().unwrap_or("")))
            } else {
                Source::Sink
            },
            window: j["window"]
                .as_array()
                .map(|a| (pu64(&a[0]) as usize, pu64(&a[1]) as usize)),
            rops: j["rops"]
                .as_array()
                .map(|a| a.iter().filter_map(rop_from).collect())
                .unwrap_or_default(),
            close: j["close"].as_bool().unwrap_or(false),
            collect: j["collect"].as_bool().unwrap_or(false),
        }
    }

    fn hash(&self) -> u64 {
        let mut h = Fnv::new();
        h.str(&self.to_json().to_string());
        h.0
    }
}

// ------------------------------------------------------------------------------------------
// shared sink handle (BitWriter owns its `W`, so the harness keeps a second handle)

#[derive(Clone)]
struct Shared(Rc<RefCell<SimSink>>);

impl io::Write for Shared {
    fn write(&mut self, buf: &[u8]) -> io::Result<usize> {
        self.0.borrow_mut().write(buf)
    }
    fn flush(&mut self) -> io::Result<()> {
        self.0.borrow_mut().flush()
    }
}

fn word_value(n: u32, v: u64) -> Value {
    match n {
        0 => Value::u1((v & 1) as u8),
        1 => Value::u2((v & 3) as u8),
        2 => Value::u4((v & 15) as u8),
        3 => Value::u8(v as u8),
        4 => Value::u16(v as u16),
        5 => Value::u32(v as u32),
        _ => Value::u64(v),
    }
}

fn wop_bits(o: &WOp) -> Vec<bool> {
    match o {
        WOp::Bit(b) => vec![*b],
        WOp::Bits(n, l) => bits_of_u64(if *l == 64 { *n } else { *n & ((1u64 << *l) - 1) }, *l),
        WOp::Bytes(b) | WOp::Hash(b) => unpack(b),
        WOp::Nat(n) => natural::encode(u128::from(*n)),
        WOp::Word(n, v) => {
            let l = 1usize << *n;
            bits_of_u64(if l == 64 { *v } else { *v & ((1u64 << l) - 1) }, l)
        }
        WOp::FlushAll | WOp::Flush | WOp::Count => vec![],
    }
}

struct Viol {
    class: &'static str,
    key: String,
    msg: String,
}

fn v(class: &'static str, key: &str, msg: String) -> Viol {
    Viol {
        class,
        key: key.to_owned(),
        msg,
    }
}

#[derive(Default)]
pub struct ExecStats {
    pub sink_calls: u64,
    pub fired: [u64; 4],
    pub ops_failed: u64,
    pub retries: u64,
    pub wop_kinds: u32,
    pub crossed_boundary: bool,
    pub sink_len: usize,
    pub eof_hits: u64,
    pub nat_ok: u64,
    pub nat_rejected: u64,
    pub reads: u64,
    pub close_ok: u64,
    pub close_err: u64,
    pub rop_kinds: u32,
}

/// Execute one plan; `Err` = property violated.
fn exec(plan: &Plan, st: &mut ExecStats) -> Result<(), Viol> {
    // ------------------------------------------------------------------ writer phase
    let sink = Rc::new(RefCell::new(SimSink::new(plan.faults.clone())));
    if plan.trickle > 0 {
        sink.borrow_mut().max_accept = plan.trickle;
    }
    let mut w = BitWriter::new(Shared(sink.clone()));
    let mut logical: Vec<bool> = Vec::new(); // all op bits, in order
    let mut phys: Vec<bool> = Vec::new(); // bits as they must appear on the device, incl. flush padding
    // "hard" = visible to the caller by std's conventions: everything except EINTR on a write
    // (write_all retries that one); EINTR on flush is propagated by std's own writers too.
    let hard_fired = |s: &SimSink| {
        s.fired.iter().filter(|(_, f)| *f != SinkFault::Eintr).count() + s.fired_on_flush as usize
    };

    // check the cache/sink invariant; returns Err on divergence
    let check = |w: &BitWriter<Shared>, phys: &Vec<bool>, logical: &Vec<bool>, at: &str| -> Result<(), Viol> {
        let s = sink.borrow();
        if w.n_total_written() != logical.len() {
            return Err(v(
                "writer-counter",
                "n_total_written",
                format!(
                    "{}: n_total_written()={} but {} bits were acknowledged",
                    at,
                    w.n_total_written(),
                    logical.len()
                ),
            ));
        }
        let on_dev = s.bytes.len() * 8;
        if on_dev > phys.len() + 7 || (on_dev > phys.len() && phys.len() % 8 == 0) {
            return Err(v(
                "writer-stream",
                "device-has-more-than-written",
                format!("{}: device holds {} bits, only {} were written", at, on_dev, phys.len()),
            ));
        }
        if phys.len() > on_dev + 8 {
            return Err(v(
                "writer-stream",
                "bits-missing-on-device",
                format!(
                    "{}: {} bits written, device holds {} and the cache can hold at most 8",
                    at,
                    phys.len(),
                    on_dev
                ),
            ));
        }
        let want = pack(phys);
        let n = s.bytes.len().min(want.len());
        // the last device byte may be a flushed partial byte only if phys was padded to it
        if s.bytes[..n] != want[..n] {
            let i = (0..n).find(|i| s.bytes[*i] != want[*i]).unwrap();
            return Err(v(
                "writer-stream",
                "device-bytes-differ",
                format!(
                    "{}: device byte {} is {:02x}, model says {:02x}",
                    at, i, s.bytes[i], want[i]
                ),
            ));
        }
        Ok(())
    };

    let mut kinds = 0u32;
    for (i, op) in plan.wops.iter().enumerate() {
        kinds |= 1
            << match op {
                WOp::Bit(_) => 0,
                WOp::Bits(..) => 1,
                WOp::Bytes(_) => 2,
                WOp::Nat(_) => 3,
                WOp::Hash(_) => 4,
                WOp::Word(..) => 5,
                WOp::FlushAll => 6,
                WOp::Flush => 7,
                WOp::Count => 8,
            };
        let at = format!("wop {} {:?}", i, wop_json(op).to_string());
        let bits = wop_bits(op);
        let before = w.n_total_written();
        let dev_before = sink.borrow().bytes.len();
        let hard_before = hard_fired(&sink.borrow());
        if (phys.len() % 8) + bits.len() > 8 {
            st.crossed_boundary = true;
        }
        // the library call; Ok(Some(n)) = returned count
        let res: io::Result<Option<usize>> = match op {
            WOp::Bit(b) => w.write_bit(*b).map(|_| None),
            WOp::Bits(n, l) => w.write_bits_be(*n, *l).map(Some),
            WOp::Bytes(b) => w.write(b).map(|n| Some(n * 8)),
            WOp::Nat(n) => encode_natural(*n as usize, &mut w).map(Some),
            WOp::Hash(b) => encode_hash(b, &mut w).map(Some),
            WOp::Word(n, val) => encode_value(&word_value(*n, *val), &mut w).map(Some),
            WOp::FlushAll => w.flush_all().map(|_| None),
            WOp::Flush => w.flush().map(|_| None),
            WOp::Count => Ok(None),
        };
        let after = w.n_total_written();
        let hard_now = hard_fired(&sink.borrow());
        let acked = after.wrapping_sub(before);
        if after < before || acked > bits.len() {
            return Err(v(
                "writer-counter",
                "n_total_written",
                format!("{}: counter moved from {} to {} for an op of {} bits", at, before, after, bits.len()),
            ));
        }
        match &res {
            Ok(ret) => {
                if acked != bits.len() {
                    return Err(v(
                        "writer-counter",
                        "ok-but-short",
                        format!("{}: returned Ok but acknowledged {} of {} bits", at, acked, bits.len()),
                    ));
                }
                if let Some(n) = ret {
                    if *n != bits.len() {
                        return Err(v(
                            "writer-return",
                            "returned-count",
                            format!("{}: returned {} but wrote {} bits", at, n, bits.len()),
                        ));
                    }
                }
            }
            Err(e) => {
                st.ops_failed += 1;
                if hard_now == hard_before {
                    return Err(v(
                        "writer-spurious-error",
                        if sink.borrow().fired.is_empty() { "no-fault" } else { "eintr-visible" },
                        format!("{}: returned Err({}) although the sink reported no hard failure", at, e),
                    ));
                }
            }
        }
        logical.extend_from_slice(&bits[..acked]);
        phys.extend_from_slice(&bits[..acked]);
        if matches!(op, WOp::FlushAll) {
            let dev_now = sink.borrow().bytes.len();
            // the partial byte reached the device (successfully, or before the flush itself failed)
            if res.is_ok() || dev_now * 8 > phys.len() {
                while phys.len() % 8 != 0 {
                    phys.push(false);
                }
            }
            if res.is_ok() && dev_now * 8 != phys.len() {
                return Err(v(
                    "writer-flush",
                    "flush_all-left-bits-behind",
                    format!("{}: flush_all returned Ok; device has {} bits, written {}", at, dev_now * 8, phys.len()),
                ));
            }
            let _ = dev_before;
        }
        check(&w, &phys, &logical, &at)?;

        // faults stop being relevant for this op: re-issue what was not acknowledged
        if res.is_err() {
            let mut rest: Vec<bool> = bits[acked..].to_vec();
            let mut attempts = 0;
            let redo_flush_all = matches!(op, WOp::FlushAll);
            let redo_flush = matches!(op, WOp::Flush);
            loop {
                attempts += 1;
                st.retries += 1;
                if attempts == 4 {
                    sink.borrow_mut().heal();
                }
                if attempts > 6 {
                    return Err(v(
                        "writer-liveness",
                        "no-progress-after-faults-stop",
                        format!("{}: still failing after the sink healed", at),
                    ));
                }
                let before = w.n_total_written();
                let r: io::Result<()> = if !rest.is_empty() {
                    let mut r = Ok(());
                    while !rest.is_empty() {
                        match w.write_bit(rest[0]) {
                            Ok(()) => {
                                let b = rest.remove(0);
                                logical.push(b);
                                phys.push(b);
                            }
                            Err(e) => {
                                r = Err(e);
                                break;
                            }
                        }
                    }
                    r
                } else if redo_flush_all {
                    let r = w.flush_all();
                    let dev_now = sink.borrow().bytes.len();
                    if r.is_ok() || dev_now * 8 > phys.len() {
                        while phys.len() % 8 != 0 {
                            phys.push(false);
                        }
                    }
                    r
                } else if redo_flush {
                    w.flush()
                } else {
                    Ok(())
                };
                let _ = before;
                check(&w, &phys, &logical, &format!("{} (retry {})", at, attempts))?;
                if r.is_ok() {
                    break;
                }
            }
        }
    }
    st.wop_kinds = kinds;
    // final flush once faults have stopped
    {
        let mut attempts = 0;
        loop {
            attempts += 1;
            let r = w.flush_all();
            let dev_now = sink.borrow().bytes.len();
            if r.is_ok() || dev_now * 8 > phys.len() {
                while phys.len() % 8 != 0 {
                    phys.push(false);
                }
            }
            check(&w, &phys, &logical, "final flush_all")?;
            if r.is_ok() {
                break;
            }
            if attempts == 3 {
                sink.borrow_mut().heal();
            }
            if attempts > 5 {
                return Err(v(
                    "writer-liveness",
                    "no-progress-after-faults-stop",
                    "final flush_all still failing after the sink healed".into(),
                ));
            }
        }
    }
    {
        let s = sink.borrow();
        st.sink_calls = s.calls;
        for (_, f) in &s.fired {
            st.fired[*f as usize] += 1;
        }
        st.sink_len = s.bytes.len();
        if s.bytes != pack(&phys) {
            return Err(v(
                "writer-durability",
                "device-differs-after-final-flush",
                format!("device {} != model {}", hex(&s.bytes), hex(&pack(&phys))),
            ));
        }
        let expected_all: Vec<bool> = plan.wops.iter().flat_map(wop_bits).collect();
        if logical != expected_all {
            return Err(v(
                "writer-durability",
                "acknowledged-bits-differ",
                "sequence of acknowledged bits differs from the sequence of issued bits".into(),
            ));
        }
    }
    drop(w);

    // ------------------------------------------------------------------ reader phase
    let data: Vec<u8> = match &plan.source {
        Source::Sink => sink.borrow().bytes.clone(),
        Source::SinkEof(k) => {
            let b = sink.borrow().bytes.clone();
            b[..(*k).min(b.len())].to_vec()
        }
        Source::Bytes(b) => b.clone(),
    };
    let all_bits = unpack(&data);
    match plan.window {
        None => {
            // every third and fourth plan reads through the library's own `From` constructors
            // (owned vector, borrowed slice) instead of the simulated source
            match plan.rops.len() % 4 {
                2 => return read_phase(plan, BitIter::from(data.clone()), &all_bits, false, st),
                3 => return read_phase(plan, BitIter::from(&data[..]), &all_bits, false, st),
                _ => {}
            }
            let (src, pulls) = SimStream::new(data.clone());
            let it = BitIter::new(src);
            read_phase(plan, it, &all_bits, false, st)?;
            if pulls.get() > data.len() as u64 + 8 + 2 * plan.rops.len() as u64 {
                return Err(v(
                    "reader-pulls",
                    "source-over-pulled",
                    format!("source of {} bytes pulled {} times", data.len(), pulls.get()),
                ));
            }
        }
        Some((s, e)) => {
            let e = e.min(data.len() * 8);
            let s = s.min(e);
            let it = BitIter::byte_slice_window(&data, s, e);
            let key = if e % 8 != 0 { "end-unaligned" } else { "end-aligned" };
            // `close` on a window whose end is not byte aligned also looks at the bits of the last
            // byte that lie beyond the window; the property is silent about those, so close is
            // checked on windows only when their end is byte aligned (false alarm avoided by
            // construction; start may be anywhere)
            read_phase(plan, it, &all_bits[s..e], e % 8 != 0, st).map_err(|mut x| {
                x.key = format!("window:{}:{}", key, x.key);
                x.class = "window";
                x
            })?;
        }
    }
    Ok(())
}

/// `DecodeNaturalError` lives in a private module and is not re-exported, so it cannot be named
/// from outside the crate; it is classified through its `Debug` rendering.
#[derive(Clone, Debug, PartialEq)]
enum NE {
    Overflow,
    BadIndex { got: usize, max: usize },
    EndOfStream,
    Other(String),
}

impl NE {
    fn classify(s: &str) -> NE {
        if s.starts_with("Overflow") {
            NE::Overflow
        } else if s.starts_with("EndOfStream") {
            NE::EndOfStream
        } else if s.starts_with("BadIndex") {
            let nums: Vec<usize> = s
                .split(|c: char| !c.is_ascii_digit())
                .filter(|x| !x.is_empty())
                .filter_map(|x| x.parse().ok())
                .collect();
            NE::BadIndex {
                got: nums.first().copied().unwrap_or(usize::MAX),
                max: nums.get(1).copied().unwrap_or(usize::MAX),
            }
        } else {
            NE::Other(s.to_owned())
        }
    }
}

fn nat_call<I: Iterator<Item = u8>>(it: &mut BitIter<I>, ty: NTy, bound: Option<i128>) -> Result<u128, NE> {
    macro_rules! go {
        ($t:ty) => {{
            // a bound outside the type's range is clamped into it (the caller could not have passed it otherwise)
            let b: Option<$t> = bound.map(|b| <$t>::try_from(b).unwrap_or(if b < 0 { <$t>::MIN } else { <$t>::MAX }));
            it.read_natural::<$t>(b).map(|x| x as u128).map_err(|e| NE::classify(&format!("{:?}", e)))
        }};
    }
    match ty {
        NTy::U8 => go!(u8),
        NTy::U16 => go!(u16),
        NTy::U32 => go!(u32),
        NTy::U64 => go!(u64),
        NTy::U128 => go!(u128),
        NTy::Usize => go!(usize),
        NTy::I8 => go!(i8),
        NTy::I16 => go!(i16),
        NTy::I32 => go!(i32),
        NTy::I64 => go!(i64),
        NTy::I128 => go!(i128),
        NTy::Isize => go!(isize),
    }
}

fn read_phase<I: Iterator<Item = u8> + ExactSizeIterator>(
    plan: &Plan,
    mut it: BitIter<I>,
    bits: &[bool],
    skip_close: bool,
    st: &mut ExecStats,
) -> Result<(), Viol> {
    let total = bits.len();
    let mut p = 0usize;
    let mut kinds = 0u32;
    let fix_pos = |it: &BitIter<I>, p: &mut usize, need: usize, at: &str| -> Result<(), Viol> {
        // after a failed read the counter must still be truthful: somewhere between the old
        // position and what was available
        let n = it.n_total_read();
        if n < *p || n > total || n > *p + need {
            return Err(v(
                "reader-counter",
                "after-eof",
                format!("{}: failed read moved n_total_read from {} to {} (stream has {} bits)", at, *p, n, total),
            ));
        }
        *p = n;
        Ok(())
    };
    for (i, op) in plan.rops.iter().enumerate() {
        let at = format!("rop {} {}", i, rop_json(op));
        st.reads += 1;
        match op {
            ROp::Bit | ROp::Next => {
                kinds |= 1;
                let got = if matches!(op, ROp::Bit) { it.read_bit().ok() } else { it.next() };
                if p < total {
                    if got != Some(bits[p]) {
                        return Err(v("reader-bits", "read_bit", format!("{}: got {:?}, stream bit {} is {}", at, got, p, bits[p])));
                    }
                    p += 1;
                } else {
                    st.eof_hits += 1;
                    if got.is_some() {
                        return Err(v("reader-bits", "read-past-end", format!("{}: got {:?} at position {} of {}", at, got, p, total)));
                    }
                }
            }
            ROp::U2 => {
                kinds |= 2;
                let got = it.read_u2();
                if p + 2 <= total {
                    let want = u8::from(bits[p]) * 2 + u8::from(bits[p + 1]);
                    match got {
                        Ok(x) if u8::from(x) == want => p += 2,
                        other => return Err(v("reader-bits", "read_u2", format!("{}: got {:?}, want {}", at, other, want))),
                    }
                } else {
                    st.eof_hits += 1;
                    if got.is_ok() {
                        return Err(v("reader-bits", "read-past-end", format!("{}: Ok at position {} of {}", at, p, total)));
                    }
                    fix_pos(&it, &mut p, 2, &at)?;
                }
            }
            ROp::U8 | ROp::Cmr | ROp::Fail => {
                let nbytes = match op {
                    ROp::U8 => 1,
                    ROp::Cmr => 32,
                    _ => 64,
                };
                kinds |= if nbytes == 1 { 4 } else { 8 };
                let got: Result<Vec<u8>, _> = match op {
                    ROp::U8 => it.read_u8().map(|b| vec![b]),
                    ROp::Cmr => it.read_cmr().map(|c| c.as_ref().to_vec()),
                    _ => it.read_fail_entropy().map(|c| c.as_ref().to_vec()),
                };
                if p + 8 * nbytes <= total {
                    let want = pack(&bits[p..p + 8 * nbytes]);
                    match got {
                        Ok(x) if x == want => p += 8 * nbytes,
                        other => {
                            return Err(v(
                                "reader-bits",
                                "read_u8",
                                format!("{}: got {:?}, want {} at bit {}", at, other.map(|x| hex(&x)), hex(&want), p),
                            ))
                        }
                    }
                } else {
                    st.eof_hits += 1;
                    if got.is_ok() {
                        return Err(v("reader-bits", "read-past-end", format!("{}: Ok at position {} of {}", at, p, total)));
                    }
                    fix_pos(&it, &mut p, 8 * nbytes, &at)?;
                }
            }
            ROp::Nat(ty, bound) => {
                kinds |= 16;
                let model = natural::decode(&bits[p..]);
                let got = nat_call(&mut it, *ty, *bound);
                // effective bound in the result type: clamped into the type's range; a negative
                // bound admits no natural at all
                let eff_bound: Option<i128> = bound.map(|b| b.clamp(ty.min(), i128::try_from(ty.max()).unwrap_or(i128::MAX)));
                match model {
                    Decoded::Num(n, c) => {
                        let in_bound = eff_bound.map(|b| b >= 0 && n <= b as u128).unwrap_or(true);
                        let fits = n <= ty.max();
                        if n <= (1u128 << 31) - 1 && fits && in_bound {
                            match got {
                                Ok(x) if x == n => {
                                    st.nat_ok += 1;
                                    p += c;
                                }
                                other => {
                                    return Err(v(
                                        "natural-decode",
                                        "in-range-not-returned",
                                        format!("{}: stream encodes {} in {} bits at bit {}, got {:?}", at, n, c, p, other),
                                    ))
                                }
                            }
                        } else if n < (1u128 << 32) && fits && in_bound {
                            // 2^31 ..= 2^32-1: exact value or Overflow are both "not truncated"
                            match got {
                                Ok(x) if x == n => p += c,
                                Err(NE::Overflow) => {
                                    st.nat_rejected += 1;
                                    fix_pos(&it, &mut p, c, &at)?
                                }
                                other => {
                                    return Err(v(
                                        "natural-decode",
                                        "above-2^31-wrong",
                                        format!("{}: stream encodes {}, got {:?}", at, n, other),
                                    ))
                                }
                            }
                        } else {
                            st.nat_rejected += 1;
                            match got {
                                Err(NE::Overflow) => fix_pos(&it, &mut p, c, &at)?,
                                Err(NE::BadIndex { got: g, max: m }) => {
                                    if !in_bound && n <= ty.max().min(u128::from(u32::MAX)) && eff_bound.unwrap() >= 0 {
                                        let b = eff_bound.unwrap() as u128;
                                        if g as u128 != n || (m as u128 != b && b <= usize::MAX as u128) {
                                            return Err(v(
                                                "natural-decode",
                                                "bad-index-fields",
                                                format!("{}: BadIndex{{got:{},max:{}}} for number {} bound {}", at, g, m, n, b),
                                            ));
                                        }
                                    } else if in_bound {
                                        return Err(v(
                                            "natural-decode",
                                            "bad-index-within-bound",
                                            format!("{}: BadIndex for number {} within bound {:?}", at, n, eff_bound),
                                        ));
                                    }
                                    fix_pos(&it, &mut p, c, &at)?
                                }
                                other => {
                                    return Err(v(
                                        "natural-decode",
                                        "out-of-range-not-rejected",
                                        format!(
                                            "{}: stream encodes {} (type max {}, bound {:?}), got {:?}",
                                            at,
                                            n,
                                            ty.max(),
                                            eff_bound,
                                            other
                                        ),
                                    ))
                                }
                            }
                        }
                    }
                    Decoded::Huge => {
                        st.nat_rejected += 1;
                        if let Ok(x) = got {
                            return Err(v("natural-decode", "huge-accepted", format!("{}: astronomically large number decoded as {}", at, x)));
                        }
                        fix_pos(&it, &mut p, total, &at)?;
                    }
                    Decoded::Eof => {
                        st.eof_hits += 1;
                        if let Ok(x) = got {
                            return Err(v("natural-decode", "truncated-accepted", format!("{}: truncated number decoded as {}", at, x)));
                        }
                        fix_pos(&it, &mut p, total, &at)?;
                    }
                }
            }
            ROp::Len => {
                kinds |= 32;
                let l = it.len();
                if l != total - p {
                    return Err(v("reader-counter", "len", format!("{}: len()={} but {} bits remain", at, l, total - p)));
                }
            }
            ROp::Count => {
                kinds |= 64;
            }
        }
        if it.n_total_read() != p {
            return Err(v(
                "reader-counter",
                "n_total_read",
                format!("{}: n_total_read()={} but {} bits were consumed", at, it.n_total_read(), p),
            ));
        }
    }
    st.rop_kinds = kinds;
    if plan.collect {
        // the rest of the stream through the collector must be exactly the remaining bits
        let rest = &bits[p..];
        let (bytes, n) = it.collect_bits();
        if n != rest.len() || bytes != pack(rest) {
            return Err(v(
                "reader-bits",
                "collect_bits",
                format!("collect_bits gave {} bits {}, want {} bits {}", n, hex(&bytes), rest.len(), hex(&pack(rest))),
            ));
        }
        let r = rest.iter().copied().try_collect_bytes();
        if r.is_ok() != (rest.len() % 8 == 0) {
            return Err(v("reader-bits", "try_collect_bytes", format!("try_collect_bytes on {} bits: {:?}", rest.len(), r.is_ok())));
        }
        if let Ok(b) = &r {
            if *b != pack(rest) {
                return Err(v("reader-bits", "try_collect_bytes", format!("try_collect_bytes gave {}, want {}", hex(b), hex(&pack(rest)))));
            }
        }
    } else if plan.close && !skip_close {
        let rest = &bits[p..];
        let want_ok = rest.len() < 8 && rest.iter().all(|b| !*b);
        let got = it.close();
        if got.is_ok() {
            st.close_ok += 1;
        } else {
            st.close_err += 1;
        }
        if got.is_ok() != want_ok {
            return Err(v(
                "reader-close",
                if want_ok { "rejected-zero-padding" } else if rest.len() >= 8 { "accepted-trailing-bytes" } else { "accepted-nonzero-padding" },
                format!("close() = {:?} with {} unread bits {:?}", got, rest.len(), crate::models::bits::to_string(&rest[..rest.len().min(16)])),
            ));
        }
    }
    Ok(())
}

// ------------------------------------------------------------------------------------------
// generation

fn interesting_nat(r: &mut Rng) -> u64 {
    match r.below(6) {
        0 => r.range(1, 40),
        1 => {
            let k = r.range(1, 31);
            let base = 1u64 << k;
            (base + r.range(0, 128)).saturating_sub(64).max(1).min((1 << 31) - 1)
        }
        2 => r.range(1, (1 << 31) - 1),
        3 => r.range(1, 70000),
        4 => (1u64 << r.range(0, 30)).max(1),
        _ => (1u64 << 31) - 1 - r.below(3),
    }
}

fn gen_wops(r: &mut Rng, n: usize) -> Vec<WOp> {
    let mut v = Vec::new();
    // swarm: a random subset of op kinds is enabled in this history
    let mut w = [8u32, 8, 4, 8, 1, 4, 3, 2, 2];
    for x in w.iter_mut() {
        if r.chance(1, 4) {
            *x = 0;
        }
    }
    if w.iter().all(|x| *x == 0) {
        w[0] = 1;
    }
    for _ in 0..n {
        v.push(match r.weighted(&w) {
            0 => WOp::Bit(r.bool()),
            1 => {
                let l = if r.chance(1, 8) { 64 } else { r.urange(0, 64) };
                WOp::Bits(r.next_u64(), l)
            }
            2 => {
                let k = r.urange(0, 5);
                WOp::Bytes(r.bytes(k))
            }
            3 => WOp::Nat(interesting_nat(r)),
            4 => {
                let k = *r.pick(&[0usize, 1, 32]);
                WOp::Hash(r.bytes(k))
            }
            5 => WOp::Word(r.below(7) as u32, r.next_u64()),
            6 => WOp::FlushAll,
            7 => WOp::Flush,
            _ => WOp::Count,
        });
    }
    v
}

/// Read ops that mirror the write ops (so that every written natural is read back as a natural
/// at the alignment it was written at), with `flush_all` padding skipped bit by bit.
fn mirrored_rops(r: &mut Rng, wops: &[WOp]) -> Vec<ROp> {
    let mut v = Vec::new();
    let mut pos = 0usize;
    for op in wops {
        let bits = wop_bits(op);
        match op {
            WOp::Nat(n) => {
                let ty = *r.pick(&NTy::ALL);
                let bound = match r.below(5) {
                    0 => Some(i128::from(*n)),
                    1 => Some(i128::from(n.saturating_sub(1))),
                    2 => Some(i128::from(r.range(0, 1 << 20))),
                    3 => Some(-i128::from(r.range(0, 300))),
                    _ => None,
                };
                v.push(ROp::Nat(ty, bound));
                // a rejected natural leaves the position undefined: stop mirroring precisely,
                // the model follows the library's counter from there
            }
            WOp::FlushAll => {
                while pos % 8 != 0 {
                    v.push(ROp::Bit);
                    pos += 1;
                }
            }
            WOp::Flush | WOp::Count => v.push(if r.bool() { ROp::Count } else { ROp::Len }),
            _ => {
                let mut left = bits.len();
                while left > 0 {
                    if left >= 256 && r.chance(1, 2) {
                        v.push(ROp::Cmr);
                        left -= 256;
                    } else if left >= 8 && r.chance(2, 3) {
                        v.push(ROp::U8);
                        left -= 8;
                    } else if left >= 2 && r.chance(1, 2) {
                        v.push(ROp::U2);
                        left -= 2;
                    } else {
                        v.push(if r.bool() { ROp::Bit } else { ROp::Next });
                        left -= 1;
                    }
                }
            }
        }
        pos += bits.len();
    }
    v
}

fn random_rops(r: &mut Rng, n: usize) -> Vec<ROp> {
    let mut v = Vec::new();
    for _ in 0..n {
        v.push(match r.weighted(&[6, 3, 4, 6, 1, 1, 6, 2, 1]) {
            0 => ROp::Bit,
            1 => ROp::Next,
            2 => ROp::U2,
            3 => ROp::U8,
            4 => ROp::Cmr,
            5 => ROp::Fail,
            6 => {
                let ty = *r.pick(&NTy::ALL);
                let bound = match r.below(4) {
                    0 => Some(i128::from(r.range(0, 300))),
                    1 => Some(i128::from(r.range(1, u64::from(u32::MAX)))),
                    2 => Some(-i128::from(r.range(0, 1 << 40))),
                    _ => None,
                };
                ROp::Nat(ty, bound)
            }
            7 => ROp::Len,
            _ => ROp::Count,
        });
    }
    v
}

fn gen_plan(r: &mut Rng) -> Plan {
    let n = match r.below(4) {
        0 => r.urange(1, 4),
        1 => r.urange(4, 12),
        _ => r.urange(8, 40),
    };
    let wops = gen_wops(r, n);
    let rops = if r.chance(7, 10) {
        let mut v = mirrored_rops(r, &wops);
        let k = r.urange(0, 3);
        v.extend(random_rops(r, k));
        v
    } else {
        let k = r.urange(1, 30);
        random_rops(r, k)
    };
    let close = r.chance(1, 2);
    Plan {
        wops,
        faults: vec![], trickle: 0,
        source: Source::Sink,
        window: None,
        rops,
        close,
        collect: !close && r.chance(1, 2),
    }
}

// ------------------------------------------------------------------------------------------

impl C13 {
    fn exec_plan(&self, plan: &Plan, out: &mut RunOut) -> ExecStats {
        out.trace(|| plan.to_json());
        let mut st = ExecStats::default();
        let r = guard(|| exec(plan, &mut st));
        let fired_hard: u64 = st.fired[1] + st.fired[2] + st.fired[3];
        let nontrivial = (st.wop_kinds.count_ones() + st.rop_kinds.count_ones() >= 3)
            && (fired_hard + st.fired[0] > 0 || st.crossed_boundary || st.eof_hits > 0);
        out.eval(plan.hash(), nontrivial);
        out.count("sink_calls", st.sink_calls);
        out.count("fault_fired_eintr", st.fired[0]);
        out.count("fault_fired_zero_write", st.fired[1]);
        out.count("fault_fired_transient", st.fired[2]);
        out.count("fault_fired_permanent", st.fired[3]);
        out.count("ops_failed_by_fault", st.ops_failed);
        out.count("retries", st.retries);
        out.count("reader_eof_hits", st.eof_hits);
        out.count("reads", st.reads);
        out.count("naturals_decoded_ok", st.nat_ok);
        out.count("naturals_rejected", st.nat_rejected);
        out.count("close_ok", st.close_ok);
        out.count("close_err", st.close_err);
        match r {
            Ok(Ok(())) => {}
            Ok(Err(viol)) => {
                out.violation(viol.class, &viol.key, viol.msg, || plan.to_json());
            }
            Err(p) => {
                out.violation("panic", &panic_key(&p), p, || plan.to_json());
            }
        }
        st
    }

    /// Exhaustive natural-number sweep over [from, to).
    fn natural_sweep(&self, from: u64, to: u64, r: &mut Rng, out: &mut RunOut) {
        for n in from..to {
            let pre = r.usize_below(9);
            let mut wops: Vec<WOp> = Vec::new();
            if pre > 0 {
                wops.push(WOp::Bits(r.next_u64(), pre));
            }
            wops.push(WOp::Nat(n));
            wops.push(WOp::Bits(r.next_u64(), 7));
            let mut rops = Vec::new();
            if pre > 0 {
                for _ in 0..pre {
                    rops.push(ROp::Bit);
                }
            }
            // every result type, a bound on either side
            let ty = NTy::ALL[(n % 12) as usize];
            let bound = match (n / 12) % 5 {
                0 => None,
                1 => Some(i128::from(n)),
                2 => Some(i128::from(n) - 1),
                3 => Some(i128::from(n) + 1),
                _ => Some(-(i128::from(n) % 7)),
            };
            rops.push(ROp::Nat(ty, bound));
            rops.push(ROp::Count);
            let plan = Plan {
                wops,
                faults: vec![], trickle: 0,
                source: Source::Sink,
                window: None,
                rops,
                close: false,
                collect: false,
            };
            self.exec_plan(&plan, out);
            out.count("naturals_swept", 1);
        }
    }
}

const SWEEP_SLICE: u64 = 2048;

fn sweep_runs(tier: Tier) -> u64 {
    // quick: 1..2^16, thorough: 1..2^21
    tier.pick((1u64 << 16) / SWEEP_SLICE, (1u64 << 21) / SWEEP_SLICE)
}

impl Engine for C13 {
    fn property_id(&self) -> String {
        "C13".into()
    }
    fn engine_name(&self) -> String {
        "c13-bitstream-sim".into()
    }
    fn level(&self) -> &'static str {
        "fault_enumeration"
    }
    fn rule(&self) -> String {
        "A run is one seeded history of writer ops (write_bit, write_bits_be, io::Write::write, encode_natural, \
         encode_hash, encode_value, flush_all, flush, n_total_written) against BitWriter<SimSink>, followed by reader ops \
         (read_bit, next, read_u2, read_u8, read_cmr, read_fail_entropy, read_natural::<u8|u16|u32|u64|usize>(bound), len, \
         n_total_read, close / collect_bits) against BitIter<SimStream> over what reached the device. Each history is executed \
         fault-free and then once per (underlying sink call index x {EINTR, Ok(0), transient error, permanent failure}) and \
         once per EOF position of the source and once per sampled bit window; plus 2-4-fault samples, arbitrary byte strings \
         decoded as naturals, and an exhaustive sweep of naturals. An evaluation is one executed plan; it is non-trivial when it \
         uses >= 3 distinct op kinds and (a sink fault fired, or an op crossed a byte boundary, or the reader hit EOF). \
         distinct = distinct plan hash among non-trivial evaluations."
            .into()
    }
    fn assumptions(&self) -> Vec<String> {
        vec![
            "reference natural codec (models/natural.rs) is a correct transcription of the Tech Report's recursive definition (unit vectors in its tests)".into(),
            "a number in 2^31..2^32-1 may be either decoded exactly or rejected with Overflow (the statement only forbids truncation)".into(),
            "after a failed read the only demand is a truthful counter (n_total_read within [old, old+needed] and later reads consistent with it)".into(),
            "hard sink errors: an op may fail and lose unacknowledged bits, but acknowledged bits are never lost, duplicated or reordered; once faults stop, at most 3 retries per failed call succeed".into(),
        ]
    }
    fn components(&self) -> Json {
        json!({
            "real": ["simplicity::BitWriter", "simplicity::BitIter", "encode_natural/encode_hash/encode_value", "BitCollector", "Value word constructors"],
            "stub": ["SimSink (io::Write) with per-call fault plan", "SimStream (Iterator<Item=u8>) with EOF position"],
            "model": ["bit vector + MSB-first packing", "recursive natural-number codec in u128"],
        })
    }
    fn n_runs(&self, tier: Tier) -> u64 {
        sweep_runs(tier) + tier.pick(2500, 150_000)
    }
    fn worker_stack(&self) -> usize {
        16 << 20
    }

    fn run(&self, run: u64, seed: u64, tier: Tier, out: &mut RunOut) {
        let mut r = Rng::new(seed);
        let sweeps = sweep_runs(tier);
        if run < sweeps {
            let from = (run * SWEEP_SLICE).max(1);
            self.natural_sweep(from, (run + 1) * SWEEP_SLICE, &mut r, out);
            // the neighbourhood of one power of two per sweep run, including out-of-range ones
            let k = run % 40;
            let base = 1u128 << k;
            for d in 0..48u128 {
                let n = (base + d).saturating_sub(24).max(1);
                if n <= u128::from(u64::MAX) && (usize::BITS == 64) {
                    let plan = Plan {
                        wops: vec![WOp::Bits(r.next_u64(), r.usize_below(8)), WOp::Nat(n as u64)],
                        faults: vec![], trickle: 0,
                        source: Source::Sink,
                        window: None,
                        rops: vec![],
                        close: false,
                        collect: false,
                    };
                    // reader: skip the prefix, decode with every type
                    let pre = match &plan.wops[0] {
                        WOp::Bits(_, l) => *l,
                        _ => 0,
                    };
                    for ty in NTy::ALL {
                        let mut p2 = plan.clone();
                        p2.rops = (0..pre).map(|_| ROp::Bit).collect();
                        p2.rops.push(ROp::Nat(ty, None));
                        self.exec_plan(&p2, out);
                        out.count("naturals_near_power_of_two", 1);
                    }
                }
            }
            return;
        }
        if r.chance(1, 5) {
            // arbitrary byte strings decoded as naturals and other reads
            let k = r.urange(0, 12);
            let mut bytes = r.bytes(k);
            if r.chance(1, 2) {
                // bias towards long runs of ones (deep length-of-length recursion)
                for b in bytes.iter_mut().take(2) {
                    *b |= 0xf0;
                }
            }
            if r.chance(1, 2) {
                // the encoding (by the reference codec) of a number at or beyond the edge of the
                // supported range, at a random alignment, followed by junk: must be decoded exactly
                // or rejected, never truncated
                let edge: [u128; 14] = [
                    (1 << 31) - 1,
                    1 << 31,
                    (1 << 31) + 1,
                    (1 << 32) - 1,
                    1 << 32,
                    (1 << 32) + 1,
                    (1 << 33) + 12345,
                    1 << 40,
                    (1 << 63) - 1,
                    1 << 63,
                    (1 << 64) + 5,
                    1 << 90,
                    (1 << 16) + 1,
                    255,
                ];
                let n = edge[r.usize_below(edge.len())] + u128::from(r.below(3));
                let pre = r.usize_below(8);
                let mut bits: Vec<bool> = (0..pre).map(|_| r.bool()).collect();
                bits.extend(natural::encode(n));
                for _ in 0..r.urange(0, 24) {
                    bits.push(r.bool());
                }
                let mut rops: Vec<ROp> = (0..pre).map(|_| ROp::Bit).collect();
                let ty = *r.pick(&NTy::ALL);
                rops.push(ROp::Nat(ty, if r.chance(1, 3) { Some(i128::from(r.next_u64())) } else { None }));
                rops.push(ROp::Count);
                let plan = Plan { wops: vec![], faults: vec![], trickle: 0, source: Source::Bytes(pack(&bits)), window: None, rops, close: false, collect: false };
                self.exec_plan(&plan, out);
                out.count("edge_of_range_naturals", 1);
                return;
            }
            let n = r.urange(1, 12);
            let plan = Plan {
                wops: vec![],
                faults: vec![], trickle: 0,
                source: Source::Bytes(bytes),
                window: None,
                rops: random_rops(&mut r, n),
                close: r.bool(),
                collect: false,
            };
            self.exec_plan(&plan, out);
            out.count("arbitrary_byte_string_plans", 1);
            return;
        }
        let mut base = gen_plan(&mut r);
        if r.chance(1, 3) {
            // a trickling device: short writes on every multi-byte call
            base.trickle = r.urange(1, 3);
            out.count("short_write_sink_histories", 1);
        }
        out.sample(|| base.to_json());
        let st = self.exec_plan(&base, out);
        out.count("base_histories", 1);
        if out.violations.iter().any(|v| v.run == run && !v.class.starts_with("window")) {
            // the fault-free configuration already fails: fault variants would only repeat it
            return;
        }
        // ---- fault enumeration: every sink call x every kind
        let calls = st.sink_calls;
        for idx in 0..calls {
            for f in SinkFault::ALL {
                let mut p = base.clone();
                p.faults = vec![(idx, f)];
                p.rops.clear();
                p.close = false;
                p.collect = false;
                self.exec_plan(&p, out);
                out.count("single_fault_variants", 1);
            }
        }
        // ---- sampled multi-fault sequences
        for _ in 0..4 {
            let k = r.urange(2, 4);
            let mut p = base.clone();
            p.faults = (0..k)
                .map(|_| (r.below(calls + 4), *r.pick(&SinkFault::ALL)))
                .collect();
            p.faults.sort_by_key(|x| x.0);
            p.faults.dedup_by_key(|x| x.0);
            p.rops.clear();
            p.close = false;
            p.collect = false;
            self.exec_plan(&p, out);
            out.count("multi_fault_variants", 1);
        }
        // ---- source EOF at every byte position
        for k in 0..st.sink_len {
            let mut p = base.clone();
            p.source = Source::SinkEof(k);
            self.exec_plan(&p, out);
            out.count("source_eof_variants", 1);
        }
        // ---- bit windows
        let total = st.sink_len * 8;
        if total > 0 {
            let nwin = tier.pick(6, 12);
            for i in 0..nwin {
                let s = r.usize_below(total + 1);
                let mut e = r.urange(s, total);
                if i % 2 == 0 {
                    e = (e / 8 * 8).max(s.div_ceil(8) * 8).min(total);
                }
                let mut p = base.clone();
                p.window = Some((s.min(e), e));
                let k = r.urange(1, 10);
                p.rops = random_rops(&mut r, k);
                if r.bool() {
                    p.rops.insert(0, ROp::Len);
                }
                p.collect = r.bool();
                p.close = !p.collect;
                self.exec_plan(&p, out);
                out.count("window_variants", 1);
            }
        }
    }

    fn replay(&self, plan: &Json, out: &mut RunOut) {
        let p = Plan::from_json(plan);
        self.exec_plan(&p, out);
    }

    fn shrink(&self, plan: &Json) -> Vec<Json> {
        let p = Plan::from_json(plan);
        let mut c: Vec<Plan> = Vec::new();
        // drop halves, then single ops
        for (len, is_w) in [(p.wops.len(), true), (p.rops.len(), false)] {
            if len >= 4 {
                for (a, b) in [(0, len / 2), (len / 2, len)] {
                    let mut q = p.clone();
                    if is_w {
                        q.wops.drain(a..b);
                    } else {
                        q.rops.drain(a..b);
                    }
                    c.push(q);
                }
            }
            for i in 0..len {
                let mut q = p.clone();
                if is_w {
                    q.wops.remove(i);
                } else {
                    q.rops.remove(i);
                }
                c.push(q);
            }
        }
        for i in 0..p.faults.len() {
            let mut q = p.clone();
            q.faults.remove(i);
            c.push(q);
        }
        for i in 0..p.faults.len() {
            if p.faults[i].0 > 0 {
                let mut q = p.clone();
                q.faults[i].0 -= 1;
                c.push(q);
            }
        }
        if p.close {
            let mut q = p.clone();
            q.close = false;
            c.push(q);
        }
        if p.collect {
            let mut q = p.clone();
            q.collect = false;
            c.push(q);
        }
        if let Source::Bytes(b) = &p.source {
            for i in 0..b.len() {
                let mut q = p.clone();
                let mut b2 = b.clone();
                b2.remove(i);
                q.source = Source::Bytes(b2);
                c.push(q);
            }
        }
        // simplify single ops
        for i in 0..p.wops.len() {
            let simpler = match &p.wops[i] {
                WOp::Bits(n, l) if *l > 1 => Some(WOp::Bits(*n, l / 2)),
                WOp::Bytes(b) if b.len() > 1 => Some(WOp::Bytes(b[..b.len() / 2].to_vec())),
                WOp::Nat(n) if *n > 1 => Some(WOp::Nat(n / 2)),
                WOp::Hash(b) if !b.is_empty() => Some(WOp::Bytes(vec![b[0]])),
                WOp::Word(n, x) if *n > 0 => Some(WOp::Word(n - 1, *x)),
                _ => None,
            };
            if let Some(s) = simpler {
                let mut q = p.clone();
                q.wops[i] = s;
                c.push(q);
            }
        }
        if let Some((s, e)) = p.window {
            if s > 0 {
                let mut q = p.clone();
                q.window = Some((s - 1, e));
                c.push(q);
                let mut q = p.clone();
                q.window = Some((s % 8, e));
                c.push(q);
            }
            if e > s {
                let mut q = p.clone();
                q.window = Some((s, e - 8.min(e - s)));
                c.push(q);
            }
        }
        c.into_iter().filter(|q| *q != p).map(|q| q.to_json()).collect()
    }

    fn expected_probes(&self, _tier: Tier) -> Vec<&'static str> {
        vec![
            "fault_fired_eintr",
            "fault_fired_zero_write",
            "fault_fired_transient",
            "fault_fired_permanent",
            "ops_failed_by_fault",
            "reader_eof_hits",
            "naturals_decoded_ok",
            "naturals_rejected",
            "close_ok",
            "close_err",
            "window_variants",
            "short_write_sink_histories",
        ]
    }
}
