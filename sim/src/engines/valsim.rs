//! valsim — values under arbitrary production histories (C10 and C11).
//!
//! World: a pool of (library Value, model element) pairs. A history adds values obtained by
//! constructors, decoding, sub-value extraction from shared buffers, pruning and Bit Machine
//! output. The injected fault is semantics-preserving corruption of stored bits: garbage in sum
//! padding, neighbour bits around a value in a shared buffer, bits past the value's width in its
//! last byte, residue in a reused machine frame. No observable may change.

use crate::models::bits::{pack, to_string as bits_to_string, unpack};
use crate::models::value::*;
use crate::rng::{Fnv, Rng};
use crate::sup::{guard, panic_key, Engine, RunOut, Tier};
use serde_json::{json, Value as Json};
use simplicity::jet::{Core, CoreEnv};
use simplicity::node::{CoreConstructible, Inner};
use simplicity::types::{self, CompleteBound, Final};
use simplicity::{BitIter, BitMachine, ConstructNode, Value, ValueRef, Word};
use std::collections::hash_map::DefaultHasher;
use std::hash::{Hash, Hasher};
use std::rc::Rc;
use std::sync::Arc;

#[derive(Clone, Copy, PartialEq, Eq, Debug)]
pub enum Mode {
    C10,
    C11,
}

pub struct ValSim(pub Mode);

// ------------------------------------------------------------------------------------------
// plan

#[derive(Clone, Debug, PartialEq)]
pub enum VOp {
    /// build from constructors; `style` varies how words are produced
    Ctor { ty: String, compact: String, style: u8 },
    Zero { ty: String },
    Buffer { n: u8, data: Vec<u8> },
    Ctx8 { mid: Vec<u8>, count: u64, buf: Vec<u8> },
    DecCompact { ty: String, compact: String, junk: u64 },
    /// padded decode with `garbage`-seeded bits in every don't-care position
    DecPadded { ty: String, compact: String, garbage: u64 },
    /// walk down from pool[src] following `path` (0 = into sum payload, 1 = product left, 2 = product right)
    Extract { src: usize, path: Vec<u8> },
    /// product with a sibling (on the given side), then take the component back out
    Embed { src: usize, sib_ty: String, sib_compact: String, sib_garbage: u64, left: bool },
    /// inject into a sum with `other` on the other side, then take the payload back out
    WrapSum { src: usize, other: String, left: bool },
    Prune { src: usize, target: String, via: Option<String> },
    /// 0: value as machine input through `iden`; 1: scribe after an all-ones frame was dropped
    Machine { src: usize, route: u8 },
    /// value as machine input through a seeded copy program (iden / take / drop / pair / injl / injr
    /// / unit, chosen by the shape of the type): copies at every read and write alignment
    MachineCopy { src: usize, seed: u64 },
    Clone { src: usize },
}

#[derive(Clone, Debug, PartialEq)]
pub struct Plan {
    pub ops: Vec<VOp>,
    pub cmp_seed: u64,
}

fn op_json(o: &VOp) -> Json {
    match o {
        VOp::Ctor { ty, compact, style } => json!(["ctor", ty, compact, style]),
        VOp::Zero { ty } => json!(["zero", ty]),
        VOp::Buffer { n, data } => json!(["buffer8", n, crate::stream::hex(data)]),
        VOp::Ctx8 { mid, count, buf } => json!(["ctx8", crate::stream::hex(mid), count.to_string(), crate::stream::hex(buf)]),
        VOp::DecCompact { ty, compact, junk } => json!(["dec_compact", ty, compact, junk.to_string()]),
        VOp::DecPadded { ty, compact, garbage } => json!(["dec_padded", ty, compact, garbage.to_string()]),
        VOp::Extract { src, path } => json!(["extract", src, path]),
        VOp::Embed { src, sib_ty, sib_compact, sib_garbage, left } => {
            json!(["embed", src, sib_ty, sib_compact, sib_garbage.to_string(), left])
        }
        VOp::WrapSum { src, other, left } => json!(["wrap_sum", src, other, left]),
        VOp::Prune { src, target, via } => json!(["prune", src, target, via]),
        VOp::Machine { src, route } => json!(["machine", src, route]),
        VOp::MachineCopy { src, seed } => json!(["machine-copy", src, seed]),
        VOp::Clone { src } => json!(["clone", src]),
    }
}

fn ju(j: &Json) -> u64 {
    match j {
        Json::String(s) => s.parse().unwrap_or(0),
        o => o.as_u64().unwrap_or(0),
    }
}

fn op_from(j: &Json) -> Option<VOp> {
    let s = |k: usize| j[k].as_str().map(|x| x.to_owned());
    Some(match j[0].as_str()? {
        "ctor" => VOp::Ctor { ty: s(1)?, compact: s(2)?, style: ju(&j[3]) as u8 },
        "zero" => VOp::Zero { ty: s(1)? },
        "buffer8" => VOp::Buffer { n: ju(&j[1]) as u8, data: crate::stream::unhex(&s(2)?) },
        "ctx8" => VOp::Ctx8 { mid: crate::stream::unhex(&s(1)?), count: ju(&j[2]), buf: crate::stream::unhex(&s(3)?) },
        "dec_compact" => VOp::DecCompact { ty: s(1)?, compact: s(2)?, junk: ju(&j[3]) },
        "dec_padded" => VOp::DecPadded { ty: s(1)?, compact: s(2)?, garbage: ju(&j[3]) },
        "extract" => VOp::Extract {
            src: ju(&j[1]) as usize,
            path: j[2].as_array()?.iter().map(|x| ju(x) as u8).collect(),
        },
        "embed" => VOp::Embed {
            src: ju(&j[1]) as usize,
            sib_ty: s(2)?,
            sib_compact: s(3)?,
            sib_garbage: ju(&j[4]),
            left: j[5].as_bool()?,
        },
        "wrap_sum" => VOp::WrapSum { src: ju(&j[1]) as usize, other: s(2)?, left: j[3].as_bool()? },
        "prune" => VOp::Prune { src: ju(&j[1]) as usize, target: s(2)?, via: s(3) },
        "machine" => VOp::Machine { src: ju(&j[1]) as usize, route: ju(&j[2]) as u8 },
        "machine-copy" => VOp::MachineCopy { src: ju(&j[1]) as usize, seed: ju(&j[2]) },
        "clone" => VOp::Clone { src: ju(&j[1]) as usize },
        _ => return None,
    })
}

impl Plan {
    pub fn to_json(&self) -> Json {
        json!({
            "site": "valsim-history",
            "ops": self.ops.iter().map(op_json).collect::<Vec<_>>(),
            "cmp_seed": self.cmp_seed.to_string(),
        })
    }
    pub fn from_json(j: &Json) -> Plan {
        Plan {
            ops: j["ops"].as_array().map(|a| a.iter().filter_map(op_from).collect()).unwrap_or_default(),
            cmp_seed: ju(&j["cmp_seed"]),
        }
    }
    fn hash(&self) -> u64 {
        let mut h = Fnv::new();
        h.str(&self.to_json().to_string());
        h.0
    }
}

// ------------------------------------------------------------------------------------------
// model <-> library

pub fn to_final(t: &MT) -> Arc<Final> {
    match t {
        MT::Unit => Final::unit(),
        MT::Word(n) => Final::two_two_n(*n as usize).expect("n <= 16"),
        MT::Sum(a, b) => Final::sum(to_final(a), to_final(b)),
        MT::Prod(a, b) => Final::product(to_final(a), to_final(b)),
    }
}

/// Structural comparison of a library type with a model type (never through TMRs).
fn type_matches(f: &Final, t: &MT, depth: usize) -> bool {
    if depth > 400 {
        return true;
    }
    if f.bit_width() != width(t) || f.has_padding() != has_padding(t) {
        return false;
    }
    match (f.bound(), shape(t)) {
        (CompleteBound::Unit, Shape::Unit) => true,
        (CompleteBound::Sum(a, b), Shape::Sum(x, y)) => {
            // wide words: trust the width once both sides are pure words (walking 2^16 leaves per check is too slow)
            if let MT::Word(n) = t {
                if *n > 4 {
                    return f.as_word() == Some(*n);
                }
            }
            type_matches(a, &x, depth + 1) && type_matches(b, &y, depth + 1)
        }
        (CompleteBound::Product(a, b), Shape::Prod(x, y)) => {
            if let MT::Word(n) = t {
                if *n > 4 {
                    return f.as_word() == Some(*n);
                }
            }
            type_matches(a, &x, depth + 1) && type_matches(b, &y, depth + 1)
        }
        _ => false,
    }
}

fn word_value(bits: &[bool], style: u8, r: &mut Rng) -> Value {
    let n = bits.len();
    let as_u64 = |b: &[bool]| b.iter().fold(0u64, |a, x| a * 2 + u64::from(*x));
    match (n, style % 3) {
        (1, 0 | 1) => Value::u1(as_u64(bits) as u8),
        (2, 0 | 1) => Value::u2(as_u64(bits) as u8),
        (4, 0 | 1) => Value::u4(as_u64(bits) as u8),
        (8, 0 | 1) => Value::u8(as_u64(bits) as u8),
        (16, 0) => Value::u16(as_u64(bits) as u16),
        (32, 0) => Value::u32(as_u64(bits) as u32),
        (64, 0) => Value::u64(as_u64(bits)),
        (128, 0) => {
            let b = pack(bits);
            Value::u128(u128::from_be_bytes(b.try_into().unwrap()))
        }
        (256, 0) => Value::u256(pack(bits).try_into().unwrap()),
        (512, 0) => Value::u512(pack(bits).try_into().unwrap()),
        (16, 1) => Value::from_byte_array::<2>(pack(bits).try_into().unwrap()),
        (32, 1) => Value::from_byte_array::<4>(pack(bits).try_into().unwrap()),
        (64, 1) => Value::from_byte_array::<8>(pack(bits).try_into().unwrap()),
        (128, 1) => Value::from_byte_array::<16>(pack(bits).try_into().unwrap()),
        (256, 1) => Value::from_byte_array::<32>(pack(bits).try_into().unwrap()),
        (1, _) => {
            // as a sum of units
            if bits[0] {
                Value::right(Final::unit(), Value::unit())
            } else {
                Value::left(Value::unit(), Final::unit())
            }
        }
        (_, 2) if n <= 64 => {
            // as an explicit product of halves
            let h = n / 2;
            Value::product(word_value(&bits[..h], r.byte(), r), word_value(&bits[h..], r.byte(), r))
        }
        _ => {
            let mut bytes = pack(bits);
            bytes.push(r.byte());
            let ty = Final::two_two_n(n.trailing_zeros() as usize).unwrap();
            Value::from_padded_bits(&mut BitIter::new(bytes.into_iter()), &ty).unwrap()
        }
    }
}

/// Build the library value of a model element with the public constructors.
fn build_value(v: &MV, t: &MT, style: u8, r: &mut Rng) -> Value {
    match (v, t) {
        (MV::Unit, _) => Value::unit(),
        (MV::Word(bits), _) => word_value(bits, style, r),
        (MV::L(x), MT::Sum(a, b)) => Value::left(build_value(x, a, style, r), to_final(b)),
        (MV::R(x), MT::Sum(a, b)) => Value::right(to_final(a), build_value(x, b, style, r)),
        (MV::P(x, y), MT::Prod(a, b)) => Value::product(build_value(x, a, style, r), build_value(y, b, style, r)),
        _ => panic!("model: ill-typed element"),
    }
}

fn parse_bits(s: &str) -> Vec<bool> {
    crate::models::bits::from_string(s)
}

/// Padded rendering with plan-chosen garbage in every don't-care position, plus trailing garbage.
fn dirty_padded(v: &MV, t: &MT, garbage: u64) -> (Vec<u8>, usize) {
    let mut p = Vec::new();
    padded(v, t, &mut p);
    let mut g = Rng::new(garbage);
    let all_ones = garbage % 5 == 0;
    let bits: Vec<bool> = p.iter().map(|b| b.unwrap_or_else(|| all_ones || g.bool())).collect();
    let n = bits.len();
    let mut bytes = pack(&bits);
    // bits past the width in the last byte
    if n % 8 != 0 {
        let mask = 0xffu8 >> (n % 8);
        let last = bytes.len() - 1;
        bytes[last] |= g.byte() & mask;
    }
    bytes.push(g.byte());
    bytes.push(g.byte());
    (bytes, n)
}


/// Model of `Value::buffer8_two_n_plus_one(n, data)`: P(opt_n, P(opt_{n-1}, ... opt_0)) with
/// opt_k = Some(next 2^k bytes) iff bit k of data.len() is set; opt_k : 1 + 2^(8 * 2^k).
fn buffer_model(bn: usize, data: &[u8]) -> (Rc<MV>, Rc<MT>) {
    let mut rest: &[u8] = data;
    let mut parts: Vec<(Rc<MV>, Rc<MT>)> = Vec::new();
    for k in (0..=bn).rev() {
        let wt = Rc::new(MT::Word(3 + k as u8));
        let ot = mt_sum(Rc::new(MT::Unit), wt.clone());
        let nb = 1usize << k;
        let ov = if data.len() & nb != 0 {
            let (a, b) = rest.split_at(nb);
            rest = b;
            mv_right(Rc::new(MV::Word(unpack(a))), &MT::Unit, &wt)
        } else {
            mv_left(Rc::new(MV::Unit), &MT::Unit, &wt)
        };
        parts.push((ov, ot));
    }
    let (mut v, mut t) = parts.pop().unwrap();
    while let Some((pv, pt)) = parts.pop() {
        v = mv_prod(pv, &pt, v, &t);
        t = mt_prod(pt, t);
    }
    (v, t)
}

/// Model of `Value::ctx8(midstate, count, buffer)` = (buffer8(5, buffer), (u64 count, u256 midstate)).
fn ctx8_model(mid: &[u8], count: u64, buf: &[u8]) -> (Rc<MV>, Rc<MT>) {
    let (bv, bt) = buffer_model(5, buf);
    let ct = Rc::new(MT::Word(6));
    let mt_ = Rc::new(MT::Word(8));
    let cv = Rc::new(MV::Word(crate::models::bits::bits_of_u64(count, 64)));
    let mv_ = Rc::new(MV::Word(unpack(mid)));
    let tail_t = mt_prod(ct.clone(), mt_.clone());
    let tail_v = mv_prod(cv, &ct, mv_, &mt_);
    (mv_prod(bv, &bt, tail_v, &tail_t), mt_prod(bt, tail_t))
}

fn zero_model(t: &MT) -> Rc<MV> {
    let zeros = vec![false; width(t) + 1];
    let mut pos = 0;
    decode_padded(&zeros, &mut pos, t).expect("enough zeros")
}

/// Walk a model value along an extraction path; returns the sub-value and the number of steps taken.
fn walk_model(v: &Rc<MV>, t: &Rc<MT>, path: &[u8]) -> (Rc<MV>, Rc<MT>, usize) {
    let mut v = v.clone();
    let mut t = t.clone();
    let mut steps = 0;
    for p in path {
        match (shape(&t), vshape(&v, &t), p) {
            (Shape::Sum(a, _), VShape::L(x), 0) => {
                v = x;
                t = a;
            }
            (Shape::Sum(_, b), VShape::R(x), 0) => {
                v = x;
                t = b;
            }
            (Shape::Prod(a, _), VShape::P(x, _), 1) => {
                v = x;
                t = a;
            }
            (Shape::Prod(_, b), VShape::P(_, y), 2) => {
                v = y;
                t = b;
            }
            _ => break,
        }
        steps += 1;
    }
    (v, t, steps)
}

struct Entry {
    value: Value,
    mv: Rc<MV>,
    mt: Rc<MT>,
    route: &'static str,
}

struct Viol {
    class: &'static str,
    key: String,
    msg: String,
}

fn viol(class: &'static str, key: impl Into<String>, msg: String) -> Viol {
    Viol { class, key: key.into(), msg }
}

/// Structural descent with the accessors: the library value must be exactly the model element.
fn descend(vr: ValueRef<'_>, v: &MV, t: &MT, route: &str, depth: usize) -> Result<(), Viol> {
    let here = || format!("route={} type={} depth={}", route, mt_to_string(t), depth);
    match (shape(t), vshape(v, t)) {
        (Shape::Unit, _) => {
            if !vr.is_unit() {
                return Err(viol("C10-accessor", format!("{}:unit-not-unit", route), here()));
            }
            if vr.as_left().is_some() || vr.as_right().is_some() || vr.as_product().is_some() {
                return Err(viol("C10-accessor", format!("{}:unit-has-parts", route), here()));
            }
            Ok(())
        }
        (Shape::Sum(a, b), VShape::L(x)) => {
            if vr.as_right().is_some() || vr.as_product().is_some() {
                return Err(viol("C10-accessor", format!("{}:wrong-accessor-answers", route), format!("left value answered as_right/as_product; {}", here())));
            }
            match vr.as_left() {
                Some(inner) => {
                    let _ = b;
                    descend(inner, &x, &a, route, depth + 1)
                }
                None => Err(viol("C10-accessor", format!("{}:as_left-none", route), here())),
            }
        }
        (Shape::Sum(a, b), VShape::R(x)) => {
            if vr.as_left().is_some() || vr.as_product().is_some() {
                return Err(viol("C10-accessor", format!("{}:wrong-accessor-answers", route), format!("right value answered as_left/as_product; {}", here())));
            }
            match vr.as_right() {
                Some(inner) => {
                    let _ = a;
                    descend(inner, &x, &b, route, depth + 1)
                }
                None => Err(viol("C10-accessor", format!("{}:as_right-none", route), here())),
            }
        }
        (Shape::Prod(a, b), VShape::P(x, y)) => {
            if let MT::Word(n) = t {
                if *n > 5 {
                    // wide word: compare the bits instead of walking every leaf
                    let got: Vec<bool> = vr.iter_padded().collect();
                    if let MV::Word(w) = v {
                        if &got != w {
                            return Err(viol("C10-accessor", format!("{}:word-bits", route), here()));
                        }
                    }
                    return Ok(());
                }
            }
            // a product whose left part has a first bit may not answer as a sum
            if vr.as_left().is_some() || vr.as_right().is_some() {
                return Err(viol("C10-accessor", format!("{}:wrong-accessor-answers", route), format!("product answered as_left/as_right; {}", here())));
            }
            match vr.as_product() {
                Some((l, rr)) => {
                    descend(l, &x, &a, route, depth + 1)?;
                    descend(rr, &y, &b, route, depth + 1)
                }
                None => Err(viol("C10-accessor", format!("{}:as_product-none", route), here())),
            }
        }
        _ => panic!("model: shape mismatch"),
    }
}

fn hash_of<T: Hash>(x: &T) -> u64 {
    let mut h = DefaultHasher::new();
    x.hash(&mut h);
    h.finish()
}

#[derive(Default)]
struct Stats {
    ops: u64,
    routes: u32,
    padded_or_offset: bool,
    garbage_bits: u64,
    pairs: u64,
    equal_pairs: u64,
    neighbours: u64,
    sorted_pools: u64,
    machine_runs: u64,
    prunes_some: u64,
    prunes_none: u64,
    prunes_incompatible_but_some: u64,
    extract_offsets: u32,
}

/// All C10 checks on one entry.
fn check_c10(e: &Entry, r: &mut Rng) -> Result<(), Viol> {
    let route = e.route;
    let t = &*e.mt;
    let v = &*e.mv;
    let w = width(t);
    if !type_matches(e.value.ty(), t, 0) {
        return Err(viol("C10-type", format!("{}:type-differs", route), format!("library type {} vs model {}", e.value.ty(), mt_to_string(t))));
    }
    if e.value.padded_len() != w {
        return Err(viol("C10-layout", format!("{}:padded_len", route), format!("padded_len {} vs bit width {}", e.value.padded_len(), w)));
    }
    let pbits: Vec<bool> = e.value.iter_padded().collect();
    if pbits.len() != w {
        return Err(viol("C10-layout", format!("{}:iter_padded-count", route), format!("iter_padded yields {} bits, width {}", pbits.len(), w)));
    }
    let mut mp = Vec::new();
    padded(v, t, &mut mp);
    for (i, (got, want)) in pbits.iter().zip(mp.iter()).enumerate() {
        if let Some(b) = want {
            if got != b {
                return Err(viol("C10-layout", format!("{}:padded-bit", route), format!("padded bit {} is {}, model {} (type {})", i, got, b, mt_to_string(t))));
            }
        }
    }
    let cbits: Vec<bool> = e.value.iter_compact().collect();
    let mut mc = Vec::new();
    compact(v, t, &mut mc);
    if cbits != mc {
        return Err(viol(
            "C10-layout",
            format!("{}:compact-bits", route),
            format!("iter_compact {} vs model {} (type {})", bits_to_string(&cbits[..cbits.len().min(64)]), bits_to_string(&mc[..mc.len().min(64)]), mt_to_string(t)),
        ));
    }
    if e.value.compact_len() != mc.len() {
        return Err(viol("C10-layout", format!("{}:compact_len", route), format!("{} vs {}", e.value.compact_len(), mc.len())));
    }
    // compact == padded with the don't-care positions removed
    let stripped: Vec<bool> = pbits.iter().zip(mp.iter()).filter(|(_, m)| m.is_some()).map(|(b, _)| *b).collect();
    if stripped != cbits {
        return Err(viol("C10-layout", format!("{}:compact-vs-padded", route), "compact bits are not the padded bits with padding removed".into()));
    }
    descend(e.value.as_ref(), v, t, route, 0)?;
    // decode both renderings of *this library value* with the type
    let fin = to_final(t);
    {
        let mut bytes = pack(&cbits);
        bytes.push(r.byte());
        let mut it = BitIter::new(bytes.into_iter());
        match Value::from_compact_bits(&mut it, &fin) {
            Ok(d) => {
                if it.n_total_read() != cbits.len() {
                    return Err(viol("C10-decode", format!("{}:compact-consumed", route), format!("consumed {} of {} bits", it.n_total_read(), cbits.len())));
                }
                descend(d.as_ref(), v, t, "decode-compact", 0).map_err(|mut x| {
                    x.key = format!("{}:redecode-compact:{}", route, x.key);
                    x
                })?;
            }
            Err(_) => return Err(viol("C10-decode", format!("{}:compact-eof", route), "own compact encoding does not decode".into())),
        }
        let mut bytes = pack(&pbits);
        bytes.push(r.byte());
        let mut it = BitIter::new(bytes.into_iter());
        match Value::from_padded_bits(&mut it, &fin) {
            Ok(d) => {
                if it.n_total_read() != w {
                    return Err(viol("C10-decode", format!("{}:padded-consumed", route), format!("consumed {} of {} bits", it.n_total_read(), w)));
                }
                descend(d.as_ref(), v, t, "decode-padded", 0).map_err(|mut x| {
                    x.key = format!("{}:redecode-padded:{}", route, x.key);
                    x
                })?;
            }
            Err(_) => return Err(viol("C10-decode", format!("{}:padded-eof", route), "own padded encoding does not decode".into())),
        }
    }
    if !e.value.is_of_type(&fin) {
        return Err(viol("C10-type", format!("{}:is_of_type", route), "is_of_type(own type) is false".into()));
    }
    Ok(())
}

fn check_c11_pair(a: &Entry, b: &Entry) -> Result<bool, Viol> {
    let same = a.mt == b.mt && a.mv == b.mv;
    let key = |what: &str| format!("{}~{}:{}", a.route.min(b.route), a.route.max(b.route), what);
    let eq = a.value == b.value;
    let eq2 = b.value == a.value;
    if eq != eq2 {
        return Err(viol("C11-eq", key("asymmetric"), "a == b differs from b == a".into()));
    }
    if eq != same {
        return Err(viol(
            "C11-eq",
            key(if same { "equal-elements-compare-unequal" } else { "different-elements-compare-equal" }),
            format!(
                "a = {} : {} via {}, b = {} : {} via {}; == gives {}",
                a.value,
                mt_to_string(&a.mt),
                a.route,
                b.value,
                mt_to_string(&b.mt),
                b.route,
                eq
            ),
        ));
    }
    if same && hash_of(&a.value) != hash_of(&b.value) {
        return Err(viol("C11-hash", key("equal-values-hash-differently"), format!("{} : {}", a.value, mt_to_string(&a.mt))));
    }
    let c = a.value.cmp(&b.value);
    let d = b.value.cmp(&a.value);
    if c != d.reverse() {
        return Err(viol("C11-ord", key("cmp-not-antisymmetric"), format!("cmp(a,b)={:?} cmp(b,a)={:?}", c, d)));
    }
    if (c == std::cmp::Ordering::Equal) != same {
        return Err(viol("C11-ord", key("cmp-equal-inconsistent-with-eq"), format!("cmp = {:?}, same element = {}", c, same)));
    }
    if a.value.partial_cmp(&b.value) != Some(c) {
        return Err(viol("C11-ord", key("partial_cmp"), "partial_cmp differs from cmp".into()));
    }
    // Word wrappers
    if let (Some(wa), Some(wb)) = (a.value.to_word(), b.value.to_word()) {
        if (wa == wb) != same {
            return Err(viol("C11-eq", key("word-eq"), format!("Word equality {} but same element {}", wa == wb, same)));
        }
        if same && hash_of(&wa) != hash_of(&wb) {
            return Err(viol("C11-hash", key("word-hash"), "equal words hash differently".into()));
        }
        if (wa.cmp(&wb) == std::cmp::Ordering::Equal) != same {
            return Err(viol("C11-ord", key("word-cmp"), "Word cmp inconsistent".into()));
        }
    }
    Ok(same)
}

/// A value of the same type whose compact encoding is one edit away from `e`'s.
fn neighbour(e: &Entry, r: &mut Rng) -> Option<Entry> {
    let mut c = Vec::new();
    compact(&e.mv, &e.mt, &mut c);
    if c.len() > 1 << 14 {
        return None;
    }
    let l = c.len();
    // positions: anywhere, near the end, or at a byte boundary
    let pos = |r: &mut Rng, upto: usize| -> usize {
        if upto == 0 {
            return 0;
        }
        match r.below(3) {
            0 => r.usize_below(upto + 1).min(upto),
            1 => upto - r.usize_below(upto.min(9) + 1).min(upto),
            _ => (8 * r.usize_below(upto / 8 + 1)).min(upto),
        }
    };
    match r.below(4) {
        0 => {
            let p = pos(r, l);
            c.insert(p, r.bool());
        }
        1 => {
            if l == 0 {
                return None;
            }
            let p = pos(r, l - 1);
            c.remove(p);
        }
        2 => {
            if l == 0 {
                return None;
            }
            let p = pos(r, l - 1);
            c[p] = !c[p];
        }
        _ => {
            let p = pos(r, l);
            c.insert(p, false);
        }
    }
    // let the decoder run on: pad with zeroes
    let pad = width(&e.mt) + 8;
    c.extend(std::iter::repeat(false).take(pad));
    let mut at = 0;
    let mv = decode_compact(&c, &mut at, &e.mt)?;
    let value = build_value(&mv, &e.mt, r.byte(), r);
    Some(Entry { value, mv, mt: e.mt.clone(), route: "neighbour" })
}

/// Run `prog : source -> target` on the real machine.
fn machine_iden(input: &Value, fin: &Arc<Final>) -> Option<Value> {
    let prog = types::Context::with_context(|ctx| {
        let iden = Arc::<ConstructNode>::iden(&ctx);
        let ty = types::Type::complete(&ctx, Arc::clone(fin));
        ctx.unify(&iden.arrow().source, &ty, "pin").ok()?;
        iden.finalize_unpruned().ok()
    })?;
    let mut mac = BitMachine::for_program(&prog).ok()?;
    mac.input(input).ok()?;
    mac.exec(&prog, &CoreEnv::new()).ok()
}

/// A copy program: every leaf of its output is a piece of its input (or unit).
#[derive(Clone, Debug)]
enum CT {
    Iden,
    Unit,
    Take(Box<CT>),
    Drop(Box<CT>),
    Pair(Box<CT>, Box<CT>),
    InjL(Box<CT>, Rc<MT>),
    InjR(Rc<MT>, Box<CT>),
}

/// Seeded, type-directed copy program over source type `t`.
fn gen_ct(r: &mut Rng, t: &Rc<MT>, depth: usize) -> CT {
    let is_prod = matches!(shape(t), Shape::Prod(..));
    if depth == 0 {
        return CT::Iden;
    }
    let small = |r: &mut Rng| -> Rc<MT> {
        match r.below(4) {
            0 => Rc::new(MT::Unit),
            1 => Rc::new(MT::Word(r.below(4) as u8)),
            2 => mt_prod(Rc::new(MT::Word(0)), Rc::new(MT::Word(r.below(3) as u8))),
            _ => mt_sum(Rc::new(MT::Unit), Rc::new(MT::Word(r.below(4) as u8))),
        }
    };
    match r.weighted(&[3, if is_prod { 5 } else { 0 }, if is_prod { 5 } else { 0 }, 4, 2, 2, 1]) {
        0 => CT::Iden,
        1 | 2 => {
            let (a, b) = match shape(t) {
                Shape::Prod(a, b) => (a, b),
                _ => return CT::Iden,
            };
            if r.bool() {
                CT::Take(Box::new(gen_ct(r, &a, depth - 1)))
            } else {
                CT::Drop(Box::new(gen_ct(r, &b, depth - 1)))
            }
        }
        3 => CT::Pair(Box::new(gen_ct(r, t, depth - 1)), Box::new(gen_ct(r, t, depth - 1))),
        4 => CT::InjL(Box::new(gen_ct(r, t, depth - 1)), small(r)),
        5 => CT::InjR(small(r), Box::new(gen_ct(r, t, depth - 1))),
        _ => CT::Unit,
    }
}

/// What the copy program computes, in the model.
fn eval_ct(ct: &CT, v: &Rc<MV>, t: &Rc<MT>) -> Option<(Rc<MV>, Rc<MT>)> {
    Some(match ct {
        CT::Iden => (v.clone(), t.clone()),
        CT::Unit => (Rc::new(MV::Unit), Rc::new(MT::Unit)),
        CT::Take(c) | CT::Drop(c) => {
            let (a, b) = match shape(t) {
                Shape::Prod(a, b) => (a, b),
                _ => return None,
            };
            let (x, y) = match vshape(v, t) {
                VShape::P(x, y) => (x, y),
                _ => return None,
            };
            if matches!(ct, CT::Take(_)) {
                eval_ct(c, &x, &a)?
            } else {
                eval_ct(c, &y, &b)?
            }
        }
        CT::Pair(c, d) => {
            let (x, xt) = eval_ct(c, v, t)?;
            let (y, yt) = eval_ct(d, v, t)?;
            (mv_prod(x, &xt, y, &yt), mt_prod(xt, yt))
        }
        CT::InjL(c, other) => {
            let (x, xt) = eval_ct(c, v, t)?;
            (mv_left(x, &xt, other), mt_sum(xt, other.clone()))
        }
        CT::InjR(other, c) => {
            let (x, xt) = eval_ct(c, v, t)?;
            (mv_right(x, other, &xt), mt_sum(other.clone(), xt))
        }
    })
}

fn build_ct<'a>(ctx: &types::Context<'a>, ct: &CT) -> Option<Arc<ConstructNode<'a>>> {
    type N<'a> = Arc<ConstructNode<'a>>;
    Some(match ct {
        CT::Iden => N::iden(ctx),
        CT::Unit => N::unit(ctx),
        CT::Take(c) => N::take(&build_ct(ctx, c)?),
        CT::Drop(c) => N::drop_(&build_ct(ctx, c)?),
        CT::Pair(c, d) => N::pair(&build_ct(ctx, c)?, &build_ct(ctx, d)?).ok()?,
        CT::InjL(c, _) => N::injl(&build_ct(ctx, c)?),
        CT::InjR(_, c) => N::injr(&build_ct(ctx, c)?),
    })
}

/// Run the copy program on the real machine with `input` as its input.
fn machine_copy(input: &Value, src: &Arc<Final>, ct: &CT, target: &Arc<Final>) -> Option<Value> {
    let prog = types::Context::with_context(|ctx| {
        let p = build_ct(&ctx, ct)?;
        let s = types::Type::complete(&ctx, Arc::clone(src));
        let t = types::Type::complete(&ctx, Arc::clone(target));
        ctx.unify(&p.arrow().source, &s, "pin source").ok()?;
        ctx.unify(&p.arrow().target, &t, "pin target").ok()?;
        p.finalize_unpruned().ok()
    })?;
    let mut mac = BitMachine::for_program(&prog).ok()?;
    mac.input(input).ok()?;
    mac.exec(&prog, &CoreEnv::new()).ok()
}

/// comp(comp(scribe(ones), unit), comp(scribe(v), iden)) : 1 -> T, target pinned to T.
fn machine_residue(v: &Value, fin: &Arc<Final>) -> Option<Value> {
    let w = fin.bit_width();
    if w == 0 || w > 4096 {
        return None;
    }
    let k = (w.next_power_of_two().trailing_zeros() as usize).max(3);
    let prog = types::Context::with_context(|ctx| {
        type N<'a> = Arc<ConstructNode<'a>>;
        let ones_ty = Final::two_two_n(k).ok()?;
        let bytes = vec![0xffu8; (1usize << k) / 8 + 1];
        let ones = Value::from_padded_bits(&mut BitIter::new(bytes.into_iter()), &ones_ty).ok()?;
        let s1 = N::scribe(&ctx, &ones);
        let u = N::unit(&ctx);
        let first = N::comp(&s1, &u).ok()?;
        let s2 = N::scribe(&ctx, v);
        let id = N::iden(&ctx);
        let second = N::comp(&s2, &id).ok()?;
        let ty = types::Type::complete(&ctx, Arc::clone(fin));
        ctx.unify(&second.arrow().target, &ty, "pin").ok()?;
        // first : 1 -> 1, second : 1 -> T;  run first, discard, then second
        let p = N::pair(&first, &second).ok()?;
        let dr = N::drop_(&N::iden(&ctx));
        let root = N::comp(&p, &dr).ok()?;
        let unit_ty = types::Type::unit(&ctx);
        ctx.unify(&root.arrow().source, &unit_ty, "pin").ok()?;
        root.finalize_unpruned().ok()
    })?;
    let mut mac = BitMachine::for_program(&prog).ok()?;
    mac.exec(&prog, &CoreEnv::new()).ok()
}

fn exec(plan: &Plan, mode: Mode, st: &mut Stats) -> Result<(), Viol> {
    let mut pool: Vec<Entry> = Vec::new();
    let mut r = Rng::new(plan.cmp_seed);
    let mut routes = 0u32;
    for op in &plan.ops {
        st.ops += 1;
        let n = pool.len();
        let mut new: Vec<Entry> = Vec::new();
        match op {
            VOp::Ctor { ty, compact: c, style } => {
                if let Some(t) = mt_parse(ty) {
                    let bits = parse_bits(c);
                    let mut pos = 0;
                    if let Some(v) = decode_compact(&bits, &mut pos, &t) {
                        let value = build_value(&v, &t, *style, &mut r);
                        routes |= 1;
                        new.push(Entry { value, mv: v, mt: t, route: "ctor" });
                    }
                }
            }
            VOp::Zero { ty } => {
                if let Some(t) = mt_parse(ty) {
                    // zero(A+B) = L(zero A), zero(AxB) = (zero A, zero B): all-zero compact bits of the right length
                    let v = zero_model(&t);
                    routes |= 2;
                    new.push(Entry { value: Value::zero(&to_final(&t)), mv: v, mt: t, route: "zero" });
                }
            }
            VOp::Buffer { n: bn, data } => {
                let bn = (*bn as usize).min(6);
                if data.len() < (2usize << bn) {
                    if let Ok(value) = Value::buffer8_two_n_plus_one(bn, data) {
                        let (v, t) = buffer_model(bn, data);
                        routes |= 4;
                        new.push(Entry { value, mv: v, mt: t, route: "buffer8" });
                    }
                }
            }
            VOp::Ctx8 { mid, count, buf } => {
                if mid.len() == 32 && buf.len() < 64 {
                    let mut m = [0u8; 32];
                    m.copy_from_slice(mid);
                    if let Ok(value) = Value::ctx8(m, *count, buf) {
                        let (v, t) = ctx8_model(mid, *count, buf);
                        routes |= 8;
                        new.push(Entry { value, mv: v, mt: t, route: "ctx8" });
                    }
                }
            }
            VOp::DecCompact { ty, compact: c, junk } => {
                if let Some(t) = mt_parse(ty) {
                    let bits = parse_bits(c);
                    let mut pos = 0;
                    if let Some(v) = decode_compact(&bits, &mut pos, &t) {
                        let mut mc = Vec::new();
                        compact(&v, &t, &mut mc);
                        let mut g = Rng::new(*junk);
                        let l = mc.len();
                        // junk bits after the value
                        for _ in 0..(8 - l % 8) % 8 + 8 {
                            mc.push(g.bool());
                        }
                        let mut it = BitIter::new(pack(&mc).into_iter());
                        match Value::from_compact_bits(&mut it, &to_final(&t)) {
                            Ok(value) => {
                                if it.n_total_read() != l && mode == Mode::C10 {
                                    return Err(viol("C10-decode", "dec-compact:consumed", format!("consumed {} bits, encoding has {} (type {})", it.n_total_read(), l, ty)));
                                }
                                routes |= 16;
                                new.push(Entry { value, mv: v, mt: t, route: "dec-compact" });
                            }
                            Err(_) => {
                                if mode == Mode::C10 {
                                    return Err(viol("C10-decode", "dec-compact:eof", format!("complete encoding reported as truncated (type {})", ty)));
                                }
                            }
                        }
                    }
                }
            }
            VOp::DecPadded { ty, compact: c, garbage } => {
                if let Some(t) = mt_parse(ty) {
                    let bits = parse_bits(c);
                    let mut pos = 0;
                    if let Some(v) = decode_compact(&bits, &mut pos, &t) {
                        let (bytes, w) = dirty_padded(&v, &t, *garbage);
                        let mut it = BitIter::new(bytes.into_iter());
                        match Value::from_padded_bits(&mut it, &to_final(&t)) {
                            Ok(value) => {
                                if it.n_total_read() != w && mode == Mode::C10 {
                                    return Err(viol("C10-decode", "dec-padded:consumed", format!("consumed {} bits, width {} (type {})", it.n_total_read(), w, ty)));
                                }
                                let mut mp = Vec::new();
                                padded(&v, &t, &mut mp);
                                st.garbage_bits += mp.iter().filter(|x| x.is_none()).count() as u64;
                                routes |= 32;
                                new.push(Entry { value, mv: v, mt: t, route: "dec-padded-dirty" });
                            }
                            Err(_) => {
                                if mode == Mode::C10 {
                                    return Err(viol("C10-decode", "dec-padded:eof", format!("complete encoding reported as truncated (type {})", ty)));
                                }
                            }
                        }
                    }
                }
            }
            VOp::Extract { src, path } => {
                if n > 0 {
                    let e = &pool[src % n];
                    let mut vr = e.value.as_ref();
                    let mut v = e.mv.clone();
                    let mut t = e.mt.clone();
                    let mut steps = 0;
                    for p in path {
                        match (shape(&t), vshape(&v, &t), p) {
                            (Shape::Sum(a, _), VShape::L(x), 0) => match vr.as_left() {
                                Some(i) => {
                                    vr = i;
                                    v = x;
                                    t = a;
                                }
                                None => return Err(viol("C10-accessor", format!("{}:as_left-none", e.route), mt_to_string(&t))),
                            },
                            (Shape::Sum(_, b), VShape::R(x), 0) => match vr.as_right() {
                                Some(i) => {
                                    vr = i;
                                    v = x;
                                    t = b;
                                }
                                None => return Err(viol("C10-accessor", format!("{}:as_right-none", e.route), mt_to_string(&t))),
                            },
                            (Shape::Prod(a, b), VShape::P(x, y), 1 | 2) => match vr.as_product() {
                                Some((l, rr)) => {
                                    if *p == 1 {
                                        vr = l;
                                        v = x;
                                        t = a;
                                    } else {
                                        vr = rr;
                                        v = y;
                                        t = b;
                                    }
                                }
                                None => return Err(viol("C10-accessor", format!("{}:as_product-none", e.route), mt_to_string(&t))),
                            },
                            _ => break,
                        }
                        steps += 1;
                    }
                    if steps > 0 {
                        routes |= 64;
                        st.extract_offsets |= 1 << (steps % 8);
                        new.push(Entry { value: vr.to_value(), mv: v, mt: t, route: "extract" });
                    }
                }
            }
            VOp::Embed { src, sib_ty, sib_compact, sib_garbage, left } => {
                if n > 0 {
                    if let Some(st_) = mt_parse(sib_ty) {
                        let bits = parse_bits(sib_compact);
                        let mut pos = 0;
                        if let Some(sv) = decode_compact(&bits, &mut pos, &st_) {
                            let e = &pool[src % n];
                            let (bytes, _) = dirty_padded(&sv, &st_, *sib_garbage);
                            if let Ok(sib) = Value::from_padded_bits(&mut BitIter::new(bytes.into_iter()), &to_final(&st_)) {
                                let prod = if *left {
                                    Value::product(sib, e.value.shallow_clone())
                                } else {
                                    Value::product(e.value.shallow_clone(), sib)
                                };
                                let (pv, pt) = if *left {
                                    (mv_prod(sv.clone(), &st_, e.mv.clone(), &e.mt), mt_prod(st_.clone(), e.mt.clone()))
                                } else {
                                    (mv_prod(e.mv.clone(), &e.mt, sv.clone(), &st_), mt_prod(e.mt.clone(), st_.clone()))
                                };
                                let part = prod.as_product().map(|(l, rr)| if *left { rr.to_value() } else { l.to_value() });
                                match part {
                                    Some(pvl) => {
                                        routes |= 128;
                                        new.push(Entry { value: pvl, mv: e.mv.clone(), mt: e.mt.clone(), route: "embed-extract" });
                                        new.push(Entry { value: prod, mv: pv, mt: pt, route: "product" });
                                    }
                                    None => return Err(viol("C10-accessor", "product:as_product-none", "product value does not answer as_product".into())),
                                }
                            }
                        }
                    }
                }
            }
            VOp::WrapSum { src, other, left } => {
                if n > 0 {
                    if let Some(ot) = mt_parse(other) {
                        let e = &pool[src % n];
                        let (sum, sv, stt) = if *left {
                            (
                                Value::left(e.value.shallow_clone(), to_final(&ot)),
                                mv_left(e.mv.clone(), &e.mt, &ot),
                                mt_sum(e.mt.clone(), ot.clone()),
                            )
                        } else {
                            (
                                Value::right(to_final(&ot), e.value.shallow_clone()),
                                mv_right(e.mv.clone(), &ot, &e.mt),
                                mt_sum(ot.clone(), e.mt.clone()),
                            )
                        };
                        let back = if *left { sum.as_left().map(|x| x.to_value()) } else { sum.as_right().map(|x| x.to_value()) };
                        match back {
                            Some(b) => {
                                routes |= 256;
                                new.push(Entry { value: b, mv: e.mv.clone(), mt: e.mt.clone(), route: "sum-extract" });
                                new.push(Entry { value: sum, mv: sv, mt: stt, route: "sum" });
                            }
                            None => return Err(viol("C10-accessor", "sum:payload-none", format!("left={} of type {}", left, mt_to_string(&stt)))),
                        }
                    }
                }
            }
            VOp::Prune { src, target, via } => {
                if n > 0 {
                    if let Some(t2) = mt_parse(target) {
                        let e = &pool[src % n];
                        let want = prune(&e.mv, &e.mt, &t2);
                        let compatible = le(&t2, &e.mt);
                        let got = e.value.prune(&to_final(&t2));
                        match (&want, &got) {
                            (Some(wv), Some(gv)) => {
                                if compatible {
                                    st.prunes_some += 1;
                                } else {
                                    st.prunes_incompatible_but_some += 1;
                                }
                                let ne = Entry { value: gv.shallow_clone(), mv: wv.clone(), mt: t2.clone(), route: "prune" };
                                if mode == Mode::C10 {
                                    if !gv.is_of_type(&to_final(&t2)) {
                                        return Err(viol("C10-prune", "prune:wrong-type", format!("prune({} -> {}) has type {}", mt_to_string(&e.mt), target, gv.ty())));
                                    }
                                    check_c10(&ne, &mut r).map_err(|mut x| {
                                        x.class = "C10-prune";
                                        x
                                    })?;
                                }
                                // two steps = one step
                                if let Some(via_t) = via.as_ref().and_then(|s| mt_parse(s)) {
                                    if le(&t2, &via_t) && le(&via_t, &e.mt) {
                                        let two = e.value.prune(&to_final(&via_t)).and_then(|m| m.prune(&to_final(&t2)));
                                        match two {
                                            Some(tv) => {
                                                let te = Entry { value: tv, mv: wv.clone(), mt: t2.clone(), route: "prune-two-step" };
                                                if mode == Mode::C10 {
                                                    check_c10(&te, &mut r).map_err(|mut x| {
                                                        x.class = "C10-prune";
                                                        x
                                                    })?;
                                                }
                                                new.push(te);
                                            }
                                            None => {
                                                if mode == Mode::C10 {
                                                    return Err(viol("C10-prune", "prune:two-step-none", format!("{} -> {} -> {}", mt_to_string(&e.mt), mt_to_string(&via_t), target)));
                                                }
                                            }
                                        }
                                    }
                                }
                                routes |= 512;
                                new.push(ne);
                            }
                            (None, None) => st.prunes_none += 1,
                            (Some(_), None) => {
                                if mode == Mode::C10 {
                                    return Err(viol(
                                        "C10-prune",
                                        if compatible { "prune:compatible-target-none" } else { "prune:pathwise-compatible-none" },
                                        format!("prune({} : {} -> {}) = None", e.value, mt_to_string(&e.mt), target),
                                    ));
                                }
                            }
                            (None, Some(gv)) => {
                                if mode == Mode::C10 {
                                    return Err(viol(
                                        "C10-prune",
                                        "prune:incompatible-target-some",
                                        format!("prune({} : {} -> {}) = {}", e.value, mt_to_string(&e.mt), target, gv),
                                    ));
                                }
                            }
                        }
                    }
                }
            }
            VOp::Machine { src, route } => {
                if n > 0 {
                    let e = &pool[src % n];
                    let fin = to_final(&e.mt);
                    if width(&e.mt) <= 4096 {
                        let out = if *route == 0 { machine_iden(&e.value, &fin) } else { machine_residue(&e.value, &fin) };
                        if let Some(o) = out {
                            st.machine_runs += 1;
                            routes |= if *route == 0 { 1024 } else { 2048 };
                            // The machine returns `Value::unit()` for every zero-width target type
                            // (e.g. 1 x 1): the output then has type 1, not the program's target
                            // type. That is a statement about machine output (C05), not about
                            // value layout or equality; model it as what the machine documents.
                            let (mv, mt) = if width(&e.mt) == 0 {
                                (Rc::new(MV::Unit), Rc::new(MT::Unit))
                            } else {
                                (e.mv.clone(), e.mt.clone())
                            };
                            new.push(Entry {
                                value: o,
                                mv,
                                mt,
                                route: if *route == 0 { "machine-iden" } else { "machine-residue" },
                            });
                        }
                    }
                }
            }
            VOp::MachineCopy { src, seed } => {
                if n > 0 {
                    let e = &pool[src % n];
                    if width(&e.mt) <= 4096 {
                        let ct = gen_ct(&mut Rng::new(*seed), &e.mt, 4);
                        if let Some((mv, mt)) = eval_ct(&ct, &e.mv, &e.mt) {
                            if width(&mt) > 0 && width(&mt) <= 16384 {
                                match machine_copy(&e.value, &to_final(&e.mt), &ct, &to_final(&mt)) {
                                    Some(o) => {
                                        st.machine_runs += 1;
                                        routes |= 4096;
                                        new.push(Entry { value: o, mv, mt, route: "machine-copy" });
                                    }
                                    None => {
                                        if mode == Mode::C10 {
                                            return Err(viol("C10-machine", "machine-copy:no-output", format!("copy program {:?} over {} did not run", ct, mt_to_string(&e.mt))));
                                        }
                                    }
                                }
                            }
                        }
                    }
                }
            }
            VOp::Clone { src } => {
                if n > 0 {
                    let e = &pool[src % n];
                    new.push(Entry { value: e.value.shallow_clone(), mv: e.mv.clone(), mt: e.mt.clone(), route: "clone" });
                    if let Some(w) = e.value.to_word() {
                        new.push(Entry { value: w.as_value().shallow_clone(), mv: e.mv.clone(), mt: e.mt.clone(), route: "word" });
                    }
                }
            }
        }
        for ne in new {
            if has_padding(&ne.mt) {
                st.padded_or_offset = true;
            }
            match mode {
                Mode::C10 => check_c10(&ne, &mut r)?,
                Mode::C11 => {
                    // against a sample of the pool, and against a clean twin built by constructors
                    let twin = Entry {
                        value: build_value(&ne.mv, &ne.mt, r.byte(), &mut r),
                        mv: ne.mv.clone(),
                        mt: ne.mt.clone(),
                        route: "ctor",
                    };
                    st.pairs += 1;
                    if check_c11_pair(&ne, &twin)? {
                        st.equal_pairs += 1;
                    }
                    // near neighbours: same type, compact encoding one edit away (a bit inserted,
                    // deleted or flipped, biased to byte boundaries and the tail), so that encodings
                    // differing only in length by one bit or in their last partial byte meet
                    for _ in 0..3 {
                        if let Some(nb) = neighbour(&ne, &mut r) {
                            st.pairs += 1;
                            st.neighbours += 1;
                            if check_c11_pair(&ne, &nb)? {
                                st.equal_pairs += 1;
                            }
                        }
                    }
                    let k = pool.len().min(6);
                    for _ in 0..k {
                        let o = &pool[r.usize_below(pool.len())];
                        st.pairs += 1;
                        if check_c11_pair(&ne, o)? {
                            st.equal_pairs += 1;
                        }
                    }
                }
            }
            if pool.len() < 200 {
                pool.push(ne);
            }
        }
    }
    if mode == Mode::C11 {
        // all pairs at the end (bounded), and transitivity on sampled triples
        let m = pool.len().min(40);
        for i in 0..m {
            for j in (i + 1)..m {
                st.pairs += 1;
                if check_c11_pair(&pool[i], &pool[j])? {
                    st.equal_pairs += 1;
                }
            }
        }
        // No cycle anywhere in the pool: the comparison matrix of the first m values (one call
        // per unordered pair; antisymmetry is check_c11_pair's business) must admit a linear
        // arrangement. An insertion sort driven by the matrix produces one for every total
        // preorder; if any pair of the arrangement is then out of order, `cmp` has a cycle
        // (three values of three different types are enough — each pair alone looks fine).
        {
            use std::cmp::Ordering::*;
            let mut mat = vec![vec![Equal; m]; m];
            for i in 0..m {
                for j in (i + 1)..m {
                    let o = pool[i].value.cmp(&pool[j].value);
                    mat[i][j] = o;
                    mat[j][i] = o.reverse();
                }
            }
            let mut order: Vec<usize> = Vec::with_capacity(m);
            for i in 0..m {
                let mut p = order.len();
                while p > 0 && mat[order[p - 1]][i] == Greater {
                    p -= 1;
                }
                order.insert(p, i);
            }
            st.sorted_pools += 1;
            for p in 0..m {
                for q in (p + 1)..m {
                    if mat[order[p]][order[q]] == Greater {
                        let (a, b) = (&pool[order[p]], &pool[order[q]]);
                        return Err(viol(
                            "C11-ord",
                            "cmp-has-cycle",
                            format!(
                                "the pool cannot be arranged in a line: {} : {} sorts before {} : {} yet compares Greater",
                                a.value,
                                mt_to_string(&a.mt),
                                b.value,
                                mt_to_string(&b.mt)
                            ),
                        ));
                    }
                }
            }
        }
        for _ in 0..(m * 4) {
            if m < 3 {
                break;
            }
            let (a, b, c) = (&pool[r.usize_below(m)], &pool[r.usize_below(m)], &pool[r.usize_below(m)]);
            use std::cmp::Ordering::*;
            let ab = a.value.cmp(&b.value);
            let bc = b.value.cmp(&c.value);
            let ac = a.value.cmp(&c.value);
            let bad = (ab != Greater && bc != Greater && ac == Greater) || (ab != Less && bc != Less && ac == Less);
            if bad {
                return Err(viol("C11-ord", "cmp-not-transitive", format!("{:?} {:?} {:?}", ab, bc, ac)));
            }
        }
    }
    st.routes = routes;
    Ok(())
}

// ------------------------------------------------------------------------------------------
// generation

pub fn random_mt(r: &mut Rng, depth: usize, budget: &mut usize) -> Rc<MT> {
    if depth == 0 || *budget == 0 {
        return match r.below(4) {
            0 => Rc::new(MT::Unit),
            _ => Rc::new(MT::Word(r.below(5) as u8)),
        };
    }
    *budget -= 1;
    match r.weighted(&[3, 5, 8, 8, 1, 1]) {
        0 => Rc::new(MT::Unit),
        1 => Rc::new(MT::Word(match r.below(10) {
            0 => r.range(7, 12) as u8,
            1 => r.range(4, 7) as u8,
            _ => r.below(4) as u8,
        })),
        2 => {
            let a = random_mt(r, depth - 1, budget);
            // unequal widths on purpose: reuse a subtree, or pair with unit / a tiny word
            let b = match r.below(4) {
                0 => Rc::new(MT::Unit),
                1 => a.clone(),
                _ => random_mt(r, depth - 1, budget),
            };
            if r.bool() {
                mt_sum(a, b)
            } else {
                mt_sum(b, a)
            }
        }
        3 => {
            let a = random_mt(r, depth - 1, budget);
            let b = match r.below(4) {
                0 => Rc::new(MT::Unit),
                1 => a.clone(),
                _ => random_mt(r, depth - 1, budget),
            };
            if r.bool() {
                mt_prod(a, b)
            } else {
                mt_prod(b, a)
            }
        }
        4 => {
            // option of something: S X
            let a = random_mt(r, depth - 1, budget);
            mt_sum(Rc::new(MT::Unit), a)
        }
        _ => {
            // odd-width chain: ((W0 * W0') * W0'') style products of bits to hit every offset mod 8
            let k = r.urange(1, 7);
            let mut t = Rc::new(MT::Word(0));
            for _ in 0..k {
                t = Rc::new(MT::Prod(t, Rc::new(MT::Word(0))));
            }
            // note: built without the smart constructor on purpose is not allowed (canonical forms);
            // re-normalise through the parser
            mt_parse(&mt_to_string(&t)).unwrap()
        }
    }
}

pub fn random_mv(r: &mut Rng, t: &MT) -> Rc<MV> {
    match t {
        MT::Unit => Rc::new(MV::Unit),
        MT::Word(n) => {
            let l = 1usize << n;
            let style = r.below(4);
            Rc::new(MV::Word((0..l).map(|_| match style {
                0 => false,
                1 => true,
                _ => r.bool(),
            }).collect()))
        }
        MT::Sum(a, b) => {
            if r.bool() {
                mv_left(random_mv(r, a), a, b)
            } else {
                mv_right(random_mv(r, b), a, b)
            }
        }
        MT::Prod(a, b) => {
            let x = random_mv(r, a);
            let y = random_mv(r, b);
            mv_prod(x, a, y, b)
        }
    }
}

fn compact_string(v: &MV, t: &MT) -> String {
    let mut c = Vec::new();
    compact(v, t, &mut c);
    bits_to_string(&c)
}

/// A target for pruning: smaller (random subtrees replaced by unit), equal, or incompatible.
fn prune_target(r: &mut Rng, t: &Rc<MT>, p_unit: u64) -> Rc<MT> {
    if r.chance(p_unit, 10) {
        return Rc::new(MT::Unit);
    }
    match shape(t) {
        Shape::Unit => Rc::new(MT::Unit),
        Shape::Sum(a, b) => {
            if let MT::Word(_) = &**t {
                if r.chance(2, 3) {
                    return t.clone();
                }
            }
            mt_sum(prune_target(r, &a, p_unit), prune_target(r, &b, p_unit))
        }
        Shape::Prod(a, b) => {
            if let MT::Word(n) = &**t {
                if *n > 3 || r.chance(2, 3) {
                    return t.clone();
                }
            }
            mt_prod(prune_target(r, &a, p_unit), prune_target(r, &b, p_unit))
        }
    }
}

fn gen_plan(r: &mut Rng) -> Plan {
    let n_ops = match r.below(3) {
        0 => r.urange(2, 6),
        1 => r.urange(5, 15),
        _ => r.urange(10, 40),
    };
    let mut ops = Vec::new();
    // model shadow of the pool: mirrors which entries `exec` adds, so that follow-up ops
    // (prune targets, extraction paths) are meaningful for the entry they name
    let mut shadow: Vec<(Rc<MT>, Rc<MV>)> = Vec::new();
    let mut w: [u32; 13] = [6, 1, 1, 1, 4, 6, 6, 5, 4, 6, 4, 2, 4];
    for x in w.iter_mut().skip(1) {
        if r.chance(1, 5) {
            *x = 0;
        }
    }
    for _ in 0..n_ops {
        let k = if shadow.is_empty() { 0 } else { r.weighted(&w) };
        let n = shadow.len();
        match k {
            0 | 4 | 5 => {
                let mut budget = r.urange(1, 10);
                let depth = r.urange(1, 5);
                let t = random_mt(r, depth, &mut budget);
                let v = random_mv(r, &t);
                let (ty, c) = (mt_to_string(&t), compact_string(&v, &t));
                ops.push(match k {
                    0 => VOp::Ctor { ty, compact: c, style: r.byte() },
                    4 => VOp::DecCompact { ty, compact: c, junk: r.next_u64() },
                    _ => VOp::DecPadded { ty, compact: c, garbage: r.next_u64() },
                });
                shadow.push((t, v));
            }
            1 => {
                let mut budget = r.urange(1, 8);
                let depth = r.urange(1, 4);
                let t = random_mt(r, depth, &mut budget);
                ops.push(VOp::Zero { ty: mt_to_string(&t) });
                let v = zero_model(&t);
                shadow.push((t, v));
            }
            2 => {
                let bn = r.below(6) as u8;
                let max = (2usize << bn) - 1;
                let l = if r.bool() { r.usize_below(max + 1) } else { max };
                let data = r.bytes(l);
                let (v, t) = buffer_model(bn as usize, &data);
                ops.push(VOp::Buffer { n: bn, data });
                shadow.push((t, v));
            }
            3 => {
                let l = r.usize_below(64);
                let (mid, count, buf) = (r.bytes(32), r.next_u64(), r.bytes(l));
                let (v, t) = ctx8_model(&mid, count, &buf);
                ops.push(VOp::Ctx8 { mid, count, buf });
                shadow.push((t, v));
            }
            6 => {
                let src = r.usize_below(n);
                // follow the value: at a sum step into the payload, at a product pick a side
                let (mut v, mut t) = (shadow[src].1.clone(), shadow[src].0.clone());
                let len = r.urange(1, 8);
                let mut path = Vec::new();
                for _ in 0..len {
                    let step = match shape(&t) {
                        Shape::Unit => break,
                        Shape::Sum(..) => 0u8,
                        Shape::Prod(..) => 1 + r.below(2) as u8,
                    };
                    let (v2, t2, st) = walk_model(&v, &t, &[step]);
                    if st == 0 {
                        break;
                    }
                    v = v2;
                    t = t2;
                    path.push(step);
                }
                if !path.is_empty() {
                    ops.push(VOp::Extract { src, path });
                    shadow.push((t, v));
                }
            }
            7 => {
                let src = r.usize_below(n);
                // sibling width 1..=9 bits varies the offset mod 8
                let mut budget = 3;
                let st_ = match r.below(3) {
                    0 => {
                        let k = r.urange(0, 8);
                        let mut t = Rc::new(MT::Word(0));
                        for _ in 0..k {
                            t = mt_prod(t, Rc::new(MT::Word(0)));
                        }
                        t
                    }
                    _ => random_mt(r, 2, &mut budget),
                };
                let sv = random_mv(r, &st_);
                let left = r.bool();
                ops.push(VOp::Embed {
                    src,
                    sib_ty: mt_to_string(&st_),
                    sib_compact: compact_string(&sv, &st_),
                    sib_garbage: r.next_u64(),
                    left,
                });
                let (et, ev) = shadow[src].clone();
                let (pv, pt) = if left {
                    (mv_prod(sv.clone(), &st_, ev.clone(), &et), mt_prod(st_.clone(), et.clone()))
                } else {
                    (mv_prod(ev.clone(), &et, sv.clone(), &st_), mt_prod(et.clone(), st_.clone()))
                };
                shadow.push((et, ev));
                shadow.push((pt, pv));
            }
            8 => {
                let src = r.usize_below(n);
                let mut budget = 3;
                let other = random_mt(r, 2, &mut budget);
                let left = r.bool();
                ops.push(VOp::WrapSum { src, other: mt_to_string(&other), left });
                let (et, ev) = shadow[src].clone();
                let (sv, stt) = if left {
                    (mv_left(ev.clone(), &et, &other), mt_sum(et.clone(), other.clone()))
                } else {
                    (mv_right(ev.clone(), &other, &et), mt_sum(other.clone(), et.clone()))
                };
                shadow.push((et, ev));
                shadow.push((stt, sv));
            }
            9 => {
                let src = r.usize_below(n);
                let (t, v) = shadow[src].clone();
                let (target, via) = match r.below(6) {
                    0 => {
                        // incompatible: an unrelated type
                        let mut budget = 4;
                        (random_mt(r, 3, &mut budget), None)
                    }
                    1 => (t.clone(), None),
                    2 => {
                        // incompatible only off the value's path: perturb one subtree
                        let tt = prune_target(r, &t, 0);
                        (mt_sum(tt.clone(), Rc::new(MT::Word(r.below(3) as u8))), None)
                    }
                    _ => {
                        let via = prune_target(r, &t, 1);
                        let target = prune_target(r, &via, 3);
                        (target, Some(via))
                    }
                };
                if let Some(pv) = prune(&v, &t, &target) {
                    if let Some(vt) = &via {
                        if le(&target, vt) && le(vt, &t) {
                            shadow.push((target.clone(), pv.clone()));
                        }
                    }
                    shadow.push((target.clone(), pv));
                }
                ops.push(VOp::Prune { src, target: mt_to_string(&target), via: via.map(|x| mt_to_string(&x)) });
            }
            10 => {
                let src = r.usize_below(n);
                let route = r.below(2) as u8;
                let wd = width(&shadow[src].0);
                ops.push(VOp::Machine { src, route });
                if wd <= 4096 && (route == 0 || wd > 0) {
                    if wd == 0 {
                        shadow.push((Rc::new(MT::Unit), Rc::new(MV::Unit)));
                    } else {
                        shadow.push(shadow[src].clone());
                    }
                }
            }
            12 => {
                let src = r.usize_below(n);
                let seed = r.next_u64();
                ops.push(VOp::MachineCopy { src, seed });
                let (t, v) = shadow[src].clone();
                if width(&t) <= 4096 {
                    let ct = gen_ct(&mut Rng::new(seed), &t, 4);
                    if let Some((mv, mt)) = eval_ct(&ct, &v, &t) {
                        if width(&mt) > 0 && width(&mt) <= 16384 {
                            shadow.push((mt, mv));
                        }
                    }
                }
            }
            _ => {
                let src = r.usize_below(n);
                ops.push(VOp::Clone { src });
                shadow.push(shadow[src].clone());
                if let MT::Word(_) = &*shadow[src].0 {
                    shadow.push(shadow[src].clone());
                }
            }
        }
    }
    Plan { ops, cmp_seed: r.next_u64() }
}

// ------------------------------------------------------------------------------------------

impl ValSim {
    fn exec_plan(&self, plan: &Plan, out: &mut RunOut) {
        out.trace(|| plan.to_json());
        let mut st = Stats::default();
        let r = guard(|| exec(plan, self.0, &mut st));
        let nontrivial = st.padded_or_offset && st.routes.count_ones() >= 2;
        out.eval(plan.hash(), nontrivial);
        out.count("history_ops", st.ops);
        out.count("dont_care_bits_corrupted", st.garbage_bits);
        out.count("machine_runs", st.machine_runs);
        out.count("pairs_compared", st.pairs);
        out.count("pairs_equal", st.equal_pairs);
        out.count("pairs_neighbour", st.neighbours);
        out.count("pools_arranged_in_a_line", st.sorted_pools);
        out.count("prune_some", st.prunes_some);
        out.count("prune_none", st.prunes_none);
        out.count("prune_incompatible_target_but_pathwise_value", st.prunes_incompatible_but_some);
        for (i, name) in ["ctor", "zero", "buffer8", "ctx8", "dec_compact", "dec_padded_dirty", "extract", "embed", "wrap_sum", "prune", "machine_iden", "machine_residue", "machine_copy"].iter().enumerate() {
            if st.routes & (1 << i) != 0 {
                out.count(&format!("route_{}", name), 1);
            }
        }
        match r {
            Ok(Ok(())) => {}
            Ok(Err(v)) => out.violation(v.class, &v.key, v.msg, || plan.to_json()),
            Err(p) => out.violation("panic", &panic_key(&p), p, || plan.to_json()),
        }
    }
}

impl Engine for ValSim {
    fn property_id(&self) -> String {
        match self.0 {
            Mode::C10 => "C10".into(),
            Mode::C11 => "C11".into(),
        }
    }
    fn engine_name(&self) -> String {
        "valsim".into()
    }
    fn level(&self) -> &'static str {
        "exploration"
    }
    fn rule(&self) -> String {
        format!(
            "A run is one seeded production history (<= 40 ops) over a pool of (library Value, model element) pairs: constructors \
             (unit/left/right/product/u1..u512/from_byte_array/zero/buffer8/ctx8), from_compact_bits, from_padded_bits with plan-chosen \
             garbage in every don't-care position, sub-value extraction at every depth, product with a 1..9-bit sibling then extraction \
             (every offset mod 8), sum injection then extraction, prune to smaller/equal/incompatible targets in one and two steps, \
             Bit Machine output (value as input through iden; scribe after an all-ones frame was dropped), shallow_clone/Word. Oracle {}: {}. \
             non-trivial = some value has sum padding and at least two production routes were used; distinct = distinct plan.",
            self.property_id(),
            match self.0 {
                Mode::C10 => "layout, accessors, decoders and prune against the algebraic model (never uses == on Value)",
                Mode::C11 => "== / Hash / cmp on Value and Word against model equality, for every new value vs a clean constructor twin, three near neighbours (same type, compact encoding one bit edit away) and a pool sample, all pairs at the end, no cycle of cmp in the final pool (matrix-driven sort, then every pair of the arrangement), transitivity on sampled triples",
            }
        )
    }
    fn assumptions(&self) -> Vec<String> {
        vec![
            "model (models/value.rs) is the algebra of DESIGN.md Appendix C; unit vectors in its tests".into(),
            "library types are compared structurally (Final::bound walk), not through TMRs".into(),
            "prune to a target that is not <= the value's type: None, or the path-wise projection as a well-formed value of the target type, are both accepted (the statement forbids a malformed value)".into(),
            "wide words (n > 5) are compared by bit string rather than by walking every leaf".into(),
        ]
    }
    fn components(&self) -> Json {
        json!({
            "real": ["simplicity::Value / ValueRef / Word (constructors, accessors, iterators, decoders, prune, Eq/Ord/Hash)", "types::Final constructors", "BitMachine (for machine routes), ConstructNode::scribe, type inference for the carrier programs"],
            "stub": ["byte sources for the decoders (plan-chosen padding garbage, neighbour bits, trailing bits)"],
            "model": ["algebraic value tree + layout function (width, padding positions, compact / padded renderings, prune)"],
        })
    }
    fn n_runs(&self, tier: Tier) -> u64 {
        tier.pick(400_000, 12_000_000)
    }
    fn worker_stack(&self) -> usize {
        64 << 20
    }
    fn run(&self, _run: u64, seed: u64, _tier: Tier, out: &mut RunOut) {
        let mut r = Rng::new(seed);
        let plan = gen_plan(&mut r);
        out.sample(|| plan.to_json());
        self.exec_plan(&plan, out);
    }
    fn replay(&self, plan: &Json, out: &mut RunOut) {
        self.exec_plan(&Plan::from_json(plan), out);
    }
    fn shrink(&self, plan: &Json) -> Vec<Json> {
        let p = Plan::from_json(plan);
        let mut c = Vec::new();
        let n = p.ops.len();
        if n >= 4 {
            for (a, b) in [(0, n / 2), (n / 2, n)] {
                let mut q = p.clone();
                q.ops.drain(a..b);
                c.push(q);
            }
        }
        for i in (0..n).rev() {
            let mut q = p.clone();
            q.ops.remove(i);
            c.push(q);
        }
        for i in 0..n {
            if let VOp::Extract { src, path } = &p.ops[i] {
                if path.len() > 1 {
                    let mut q = p.clone();
                    q.ops[i] = VOp::Extract { src: *src, path: path[..path.len() - 1].to_vec() };
                    c.push(q);
                }
            }
            if let VOp::Prune { src, target, via: Some(_) } = &p.ops[i] {
                let mut q = p.clone();
                q.ops[i] = VOp::Prune { src: *src, target: target.clone(), via: None };
                c.push(q);
            }
        }
        c.into_iter().filter(|q| *q != p).map(|q| q.to_json()).collect()
    }
    fn expected_probes(&self, _tier: Tier) -> Vec<&'static str> {
        let mut v = vec![
            "route_ctor",
            "route_dec_compact",
            "route_dec_padded_dirty",
            "route_extract",
            "route_embed",
            "route_wrap_sum",
            "route_prune",
            "route_machine_iden",
            "route_machine_residue",
            "route_machine_copy",
            "route_buffer8",
            "route_ctx8",
            "dont_care_bits_corrupted",
        ];
        if self.0 == Mode::C11 {
            v.push("pairs_equal");
            v.push("pairs_neighbour");
        } else {
            v.push("prune_some");
            v.push("prune_none");
        }
        v
    }
}

#[allow(dead_code)]
fn _unused(_: &Inner<(), (), ()>, _: Core, _: Word) {}
