//! The byte-stream seams: the source handed to `BitIter` and the sink handed to `BitWriter`.

use std::cell::Cell;
use std::io;
use std::rc::Rc;

/// Byte source with a pull counter. EOF is the only thing a source can do besides deliver, so
/// every stream fault (truncate, flip, insert …) is applied to the byte vector before delivery.
#[derive(Clone)]
pub struct SimStream {
    data: Rc<Vec<u8>>,
    pos: usize,
    pulls: Rc<Cell<u64>>,
}

impl SimStream {
    pub fn new(data: Vec<u8>) -> (SimStream, Rc<Cell<u64>>) {
        let pulls = Rc::new(Cell::new(0));
        (
            SimStream {
                data: Rc::new(data),
                pos: 0,
                pulls: pulls.clone(),
            },
            pulls,
        )
    }
}

impl Iterator for SimStream {
    type Item = u8;
    fn next(&mut self) -> Option<u8> {
        self.pulls.set(self.pulls.get() + 1);
        if self.pos < self.data.len() {
            self.pos += 1;
            Some(self.data[self.pos - 1])
        } else {
            None
        }
    }
    fn size_hint(&self) -> (usize, Option<usize>) {
        let n = self.data.len() - self.pos;
        (n, Some(n))
    }
}

impl ExactSizeIterator for SimStream {}
impl std::iter::FusedIterator for SimStream {}

/// What the sink does on one underlying `write` or `flush` call.
#[derive(Clone, Copy, Debug, PartialEq, Eq)]
pub enum SinkFault {
    /// `Err(ErrorKind::Interrupted)`: legal, must be invisible.
    Eintr,
    /// `Ok(0)` from `write` (treated as `WriteZero` by `write_all`); for flush: plain error.
    Zero,
    /// `Err(ErrorKind::Other)` once.
    Transient,
    /// Every call from this one on fails (device full), until `heal()`.
    Permanent,
}

impl SinkFault {
    pub fn name(self) -> &'static str {
        match self {
            SinkFault::Eintr => "eintr",
            SinkFault::Zero => "zero",
            SinkFault::Transient => "transient",
            SinkFault::Permanent => "permanent",
        }
    }
    pub fn from_name(s: &str) -> Option<SinkFault> {
        Some(match s {
            "eintr" => SinkFault::Eintr,
            "zero" => SinkFault::Zero,
            "transient" => SinkFault::Transient,
            "permanent" => SinkFault::Permanent,
            _ => return None,
        })
    }
    pub const ALL: [SinkFault; 4] = [
        SinkFault::Eintr,
        SinkFault::Zero,
        SinkFault::Transient,
        SinkFault::Permanent,
    ];
}

/// Byte sink whose behaviour per call is dictated by the plan: `faults` maps the index of an
/// underlying call (writes and flushes share one counter) to a fault.
pub struct SimSink {
    pub bytes: Vec<u8>,
    pub calls: u64,
    pub faults: Vec<(u64, SinkFault)>,
    pub dead: bool,
    pub fired: Vec<(u64, SinkFault)>,
    pub flushes_ok: u64,
    /// faults that fired on a `flush` call (std never retries those, not even EINTR)
    pub fired_on_flush: u64,
    /// bytes accepted per write call never exceed this (short writes)
    pub max_accept: usize,
}

impl SimSink {
    pub fn new(faults: Vec<(u64, SinkFault)>) -> SimSink {
        SimSink {
            bytes: Vec::new(),
            calls: 0,
            faults,
            dead: false,
            fired: Vec::new(),
            flushes_ok: 0,
            fired_on_flush: 0,
            max_accept: usize::MAX,
        }
    }

    pub fn heal(&mut self) {
        self.dead = false;
        self.faults.clear();
    }

    fn fault_now(&mut self) -> Option<SinkFault> {
        let idx = self.calls;
        self.calls += 1;
        if self.dead {
            self.fired.push((idx, SinkFault::Permanent));
            return Some(SinkFault::Permanent);
        }
        let f = self.faults.iter().find(|(i, _)| *i == idx).map(|(_, f)| *f);
        if let Some(f) = f {
            self.fired.push((idx, f));
            if f == SinkFault::Permanent {
                self.dead = true;
            }
        }
        f
    }
}

impl io::Write for SimSink {
    fn write(&mut self, buf: &[u8]) -> io::Result<usize> {
        match self.fault_now() {
            None => {
                let n = buf.len().min(self.max_accept);
                self.bytes.extend_from_slice(&buf[..n]);
                Ok(n)
            }
            Some(SinkFault::Eintr) => Err(io::Error::new(io::ErrorKind::Interrupted, "sim EINTR")),
            Some(SinkFault::Zero) => Ok(0),
            Some(SinkFault::Transient) => Err(io::Error::new(io::ErrorKind::Other, "sim transient")),
            Some(SinkFault::Permanent) => Err(io::Error::new(io::ErrorKind::Other, "sim device full")),
        }
    }

    fn flush(&mut self) -> io::Result<()> {
        let f = self.fault_now();
        if f.is_some() {
            self.fired_on_flush += 1;
        }
        match f {
            None => {
                self.flushes_ok += 1;
                Ok(())
            }
            Some(SinkFault::Eintr) => Err(io::Error::new(io::ErrorKind::Interrupted, "sim EINTR")),
            Some(SinkFault::Zero) | Some(SinkFault::Transient) => {
                Err(io::Error::new(io::ErrorKind::Other, "sim flush failed"))
            }
            Some(SinkFault::Permanent) => Err(io::Error::new(io::ErrorKind::Other, "sim device full")),
        }
    }
}

pub fn hex(b: &[u8]) -> String {
    let mut s = String::with_capacity(b.len() * 2);
    for x in b {
        s.push_str(&format!("{:02x}", x));
    }
    s
}

pub fn unhex(s: &str) -> Vec<u8> {
    let s = s.as_bytes();
    let mut v = Vec::with_capacity(s.len() / 2);
    let d = |c: u8| -> u8 {
        match c {
            b'0'..=b'9' => c - b'0',
            b'a'..=b'f' => c - b'a' + 10,
            b'A'..=b'F' => c - b'A' + 10,
            _ => 0,
        }
    };
    let mut i = 0;
    while i + 1 < s.len() {
        v.push(d(s[i]) << 4 | d(s[i + 1]));
        i += 2;
    }
    v
}
