//! Reference model of Simplicity values: algebraic trees with a type tree and an independent
//! layout function (DESIGN.md Appendix C). Word types 2^(2^n) are kept as bit strings so that
//! wide words stay cheap; smart constructors keep the representation canonical, hence structural
//! equality of (type, value) is semantic equality.

use std::rc::Rc;

pub const WORD_CAP: u8 = 16;

#[derive(Clone, PartialEq, Eq, Hash, Debug)]
pub enum MT {
    Unit,
    /// 2^(2^n), n <= WORD_CAP
    Word(u8),
    Sum(Rc<MT>, Rc<MT>),
    Prod(Rc<MT>, Rc<MT>),
}

#[derive(Clone, PartialEq, Eq, Hash, Debug)]
pub enum MV {
    Unit,
    /// value of a Word(n) type: 2^n bits
    Word(Vec<bool>),
    L(Rc<MV>),
    R(Rc<MV>),
    P(Rc<MV>, Rc<MV>),
}

pub fn mt_sum(a: Rc<MT>, b: Rc<MT>) -> Rc<MT> {
    if *a == MT::Unit && *b == MT::Unit {
        Rc::new(MT::Word(0))
    } else {
        Rc::new(MT::Sum(a, b))
    }
}

pub fn mt_prod(a: Rc<MT>, b: Rc<MT>) -> Rc<MT> {
    if let (MT::Word(n), MT::Word(m)) = (&*a, &*b) {
        if n == m && *n < WORD_CAP {
            return Rc::new(MT::Word(n + 1));
        }
    }
    Rc::new(MT::Prod(a, b))
}

pub fn width(t: &MT) -> usize {
    match t {
        MT::Unit => 0,
        MT::Word(n) => 1usize << n,
        MT::Sum(a, b) => 1 + width(a).max(width(b)),
        MT::Prod(a, b) => width(a) + width(b),
    }
}

pub fn has_padding(t: &MT) -> bool {
    match t {
        MT::Unit | MT::Word(_) => false,
        MT::Sum(a, b) => has_padding(a) || has_padding(b) || width(a) != width(b),
        MT::Prod(a, b) => has_padding(a) || has_padding(b),
    }
}

/// One level of structure, with word types expanded.
pub enum Shape {
    Unit,
    Sum(Rc<MT>, Rc<MT>),
    Prod(Rc<MT>, Rc<MT>),
}

pub fn shape(t: &MT) -> Shape {
    match t {
        MT::Unit => Shape::Unit,
        MT::Word(0) => Shape::Sum(Rc::new(MT::Unit), Rc::new(MT::Unit)),
        MT::Word(n) => Shape::Prod(Rc::new(MT::Word(n - 1)), Rc::new(MT::Word(n - 1))),
        MT::Sum(a, b) => Shape::Sum(a.clone(), b.clone()),
        MT::Prod(a, b) => Shape::Prod(a.clone(), b.clone()),
    }
}

pub enum VShape {
    Unit,
    L(Rc<MV>),
    R(Rc<MV>),
    P(Rc<MV>, Rc<MV>),
}

/// One level of a value of type `t`, with word values expanded.
pub fn vshape(v: &MV, t: &MT) -> VShape {
    match (v, t) {
        (MV::Unit, _) => VShape::Unit,
        (MV::Word(bits), MT::Word(0)) => {
            if bits[0] {
                VShape::R(Rc::new(MV::Unit))
            } else {
                VShape::L(Rc::new(MV::Unit))
            }
        }
        (MV::Word(bits), _) => {
            let h = bits.len() / 2;
            VShape::P(Rc::new(MV::Word(bits[..h].to_vec())), Rc::new(MV::Word(bits[h..].to_vec())))
        }
        (MV::L(x), _) => VShape::L(x.clone()),
        (MV::R(x), _) => VShape::R(x.clone()),
        (MV::P(a, b), _) => VShape::P(a.clone(), b.clone()),
    }
}

/// left injection into lt + rt
pub fn mv_left(v: Rc<MV>, lt: &MT, rt: &MT) -> Rc<MV> {
    if *lt == MT::Unit && *rt == MT::Unit {
        Rc::new(MV::Word(vec![false]))
    } else {
        Rc::new(MV::L(v))
    }
}

pub fn mv_right(v: Rc<MV>, lt: &MT, rt: &MT) -> Rc<MV> {
    if *lt == MT::Unit && *rt == MT::Unit {
        Rc::new(MV::Word(vec![true]))
    } else {
        Rc::new(MV::R(v))
    }
}

pub fn mv_prod(a: Rc<MV>, at: &MT, b: Rc<MV>, bt: &MT) -> Rc<MV> {
    if let (MT::Word(n), MT::Word(m)) = (at, bt) {
        if n == m && *n < WORD_CAP {
            if let (MV::Word(x), MV::Word(y)) = (&*a, &*b) {
                let mut z = x.clone();
                z.extend_from_slice(y);
                return Rc::new(MV::Word(z));
            }
        }
    }
    Rc::new(MV::P(a, b))
}

/// Padded rendering: `None` marks a don't-care position.
pub fn padded(v: &MV, t: &MT, out: &mut Vec<Option<bool>>) {
    match (v, t) {
        (MV::Unit, _) => {}
        (MV::Word(bits), _) => out.extend(bits.iter().map(|b| Some(*b))),
        (MV::L(x), MT::Sum(a, b)) => {
            out.push(Some(false));
            let pad = width(a).max(width(b)) - width(a);
            out.extend(std::iter::repeat(None).take(pad));
            padded(x, a, out);
        }
        (MV::R(x), MT::Sum(a, b)) => {
            out.push(Some(true));
            let pad = width(a).max(width(b)) - width(b);
            out.extend(std::iter::repeat(None).take(pad));
            padded(x, b, out);
        }
        (MV::P(x, y), MT::Prod(a, b)) => {
            padded(x, a, out);
            padded(y, b, out);
        }
        _ => panic!("model: value {:?} does not have type {:?}", v, t),
    }
}

pub fn compact(v: &MV, t: &MT, out: &mut Vec<bool>) {
    match (v, t) {
        (MV::Unit, _) => {}
        (MV::Word(bits), _) => out.extend_from_slice(bits),
        (MV::L(x), MT::Sum(a, _)) => {
            out.push(false);
            compact(x, a, out);
        }
        (MV::R(x), MT::Sum(_, b)) => {
            out.push(true);
            compact(x, b, out);
        }
        (MV::P(x, y), MT::Prod(a, b)) => {
            compact(x, a, out);
            compact(y, b, out);
        }
        _ => panic!("model: value {:?} does not have type {:?}", v, t),
    }
}

/// Decode the compact rendering; returns the value and advances `pos`.
pub fn decode_compact(bits: &[bool], pos: &mut usize, t: &MT) -> Option<Rc<MV>> {
    match t {
        MT::Unit => Some(Rc::new(MV::Unit)),
        MT::Word(n) => {
            let l = 1usize << n;
            if *pos + l > bits.len() {
                return None;
            }
            let v = bits[*pos..*pos + l].to_vec();
            *pos += l;
            Some(Rc::new(MV::Word(v)))
        }
        MT::Sum(a, b) => {
            if *pos >= bits.len() {
                return None;
            }
            let tag = bits[*pos];
            *pos += 1;
            if tag {
                Some(mv_right(decode_compact(bits, pos, b)?, a, b))
            } else {
                Some(mv_left(decode_compact(bits, pos, a)?, a, b))
            }
        }
        MT::Prod(a, b) => {
            let x = decode_compact(bits, pos, a)?;
            let y = decode_compact(bits, pos, b)?;
            Some(mv_prod(x, a, y, b))
        }
    }
}

/// Decode the padded rendering (don't-care positions skipped).
pub fn decode_padded(bits: &[bool], pos: &mut usize, t: &MT) -> Option<Rc<MV>> {
    match t {
        MT::Unit => Some(Rc::new(MV::Unit)),
        MT::Word(n) => {
            let l = 1usize << n;
            if *pos + l > bits.len() {
                return None;
            }
            let v = bits[*pos..*pos + l].to_vec();
            *pos += l;
            Some(Rc::new(MV::Word(v)))
        }
        MT::Sum(a, b) => {
            if *pos + 1 + width(a).max(width(b)) > bits.len() {
                return None;
            }
            let tag = bits[*pos];
            *pos += 1;
            let m = width(a).max(width(b));
            if tag {
                *pos += m - width(b);
                Some(mv_right(decode_padded(bits, pos, b)?, a, b))
            } else {
                *pos += m - width(a);
                Some(mv_left(decode_padded(bits, pos, a)?, a, b))
            }
        }
        MT::Prod(a, b) => {
            let x = decode_padded(bits, pos, a)?;
            let y = decode_padded(bits, pos, b)?;
            Some(mv_prod(x, a, y, b))
        }
    }
}

/// t2 <= t : unit below anything, component-wise on sums and products, equal types.
pub fn le(t2: &MT, t: &MT) -> bool {
    if t2 == t || *t2 == MT::Unit {
        return true;
    }
    match (shape(t2), shape(t)) {
        (Shape::Sum(a2, b2), Shape::Sum(a, b)) => le(&a2, &a) && le(&b2, &b),
        (Shape::Prod(a2, b2), Shape::Prod(a, b)) => le(&a2, &a) && le(&b2, &b),
        _ => false,
    }
}

/// Path-wise projection of `v : t` to `t2` (follows only the branch the value takes).
/// `None` when the target is incompatible on that path.
pub fn prune(v: &MV, t: &MT, t2: &MT) -> Option<Rc<MV>> {
    if t == t2 {
        return Some(Rc::new(v.clone()));
    }
    if *t2 == MT::Unit {
        return Some(Rc::new(MV::Unit));
    }
    match (shape(t2), shape(t), vshape(v, t)) {
        (Shape::Sum(a2, b2), Shape::Sum(a, _), VShape::L(x)) => Some(mv_left(prune(&x, &a, &a2)?, &a2, &b2)),
        (Shape::Sum(a2, b2), Shape::Sum(_, b), VShape::R(x)) => Some(mv_right(prune(&x, &b, &b2)?, &a2, &b2)),
        (Shape::Prod(a2, b2), Shape::Prod(a, b), VShape::P(x, y)) => {
            let p = prune(&x, &a, &a2)?;
            let q = prune(&y, &b, &b2)?;
            Some(mv_prod(p, &a2, q, &b2))
        }
        _ => None,
    }
}

// ------------------------------------------------------------------------------------------
// text form for plans:  1 | Wn | (a+b) | (a*b)

pub fn mt_to_string(t: &MT) -> String {
    match t {
        MT::Unit => "1".into(),
        MT::Word(n) => format!("W{}", n),
        MT::Sum(a, b) => format!("({}+{})", mt_to_string(a), mt_to_string(b)),
        MT::Prod(a, b) => format!("({}*{})", mt_to_string(a), mt_to_string(b)),
    }
}

pub fn mt_parse(s: &str) -> Option<Rc<MT>> {
    fn go(b: &[u8], i: &mut usize, depth: usize) -> Option<Rc<MT>> {
        if depth > 300 || *i >= b.len() {
            return None;
        }
        match b[*i] {
            b'1' => {
                *i += 1;
                Some(Rc::new(MT::Unit))
            }
            b'W' => {
                *i += 1;
                let mut n = 0u32;
                let mut any = false;
                while *i < b.len() && b[*i].is_ascii_digit() {
                    n = n * 10 + u32::from(b[*i] - b'0');
                    *i += 1;
                    any = true;
                }
                if !any || n > u32::from(WORD_CAP) {
                    return None;
                }
                Some(Rc::new(MT::Word(n as u8)))
            }
            b'(' => {
                *i += 1;
                let a = go(b, i, depth + 1)?;
                let op = *b.get(*i)?;
                *i += 1;
                let c = go(b, i, depth + 1)?;
                if *b.get(*i)? != b')' {
                    return None;
                }
                *i += 1;
                match op {
                    b'+' => Some(mt_sum(a, c)),
                    b'*' => Some(mt_prod(a, c)),
                    _ => None,
                }
            }
            _ => None,
        }
    }
    let b = s.as_bytes();
    let mut i = 0;
    let t = go(b, &mut i, 0)?;
    if i == b.len() {
        Some(t)
    } else {
        None
    }
}

#[cfg(test)]
mod tests {
    use super::*;
    use crate::models::bits::from_string;

    #[test]
    fn layout_vectors() {
        // (1 + W3): width 9; L(()) = 0 ????????, R(0xAB) = 1 10101011
        let t = mt_parse("(1+W3)").unwrap();
        assert_eq!(width(&t), 9);
        assert!(has_padding(&t));
        let none = mv_left(Rc::new(MV::Unit), &MT::Unit, &MT::Word(3));
        let mut p = vec![];
        padded(&none, &t, &mut p);
        assert_eq!(p.len(), 9);
        assert_eq!(p[0], Some(false));
        assert!(p[1..].iter().all(|x| x.is_none()));
        let mut c = vec![];
        compact(&none, &t, &mut c);
        assert_eq!(c, vec![false]);
        let some = mv_right(Rc::new(MV::Word(from_string("10101011"))), &MT::Unit, &MT::Word(3));
        let mut c = vec![];
        compact(&some, &t, &mut c);
        assert_eq!(c, from_string("110101011"));
        let mut pos = 0;
        assert_eq!(decode_compact(&c, &mut pos, &t).unwrap(), some);
        assert_eq!(pos, 9);
        // canonical forms
        assert_eq!(*mt_parse("(1+1)").unwrap(), MT::Word(0));
        assert_eq!(*mt_parse("((1+1)*(1+1))").unwrap(), MT::Word(1));
        assert_eq!(mt_to_string(&mt_parse("((W2+1)*(1+W0))").unwrap()), "((W2+1)*(1+W0))");
        // prune
        let t = mt_parse("((W3+W1)*W2)").unwrap();
        let v = mv_prod(
            mv_right(Rc::new(MV::Word(from_string("10"))), &MT::Word(3), &MT::Word(1)),
            &mt_parse("(W3+W1)").unwrap(),
            Rc::new(MV::Word(from_string("1111"))),
            &MT::Word(2),
        );
        let t2 = mt_parse("((1+W1)*1)").unwrap();
        assert!(le(&t2, &t));
        let p = prune(&v, &t, &t2).unwrap();
        let mut c = vec![];
        compact(&p, &t2, &mut c);
        assert_eq!(c, from_string("110"));
        assert!(prune(&v, &t, &mt_parse("(W0*W0)").unwrap()).is_none());
    }
}
