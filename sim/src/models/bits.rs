//! Bit-vector reference model: MSB-first packing.

pub fn unpack(bytes: &[u8]) -> Vec<bool> {
    let mut v = Vec::with_capacity(bytes.len() * 8);
    for b in bytes {
        for i in 0..8 {
            v.push(b & (0x80 >> i) != 0);
        }
    }
    v
}

/// Pack bits MSB first, zero padding in the last byte.
pub fn pack(bits: &[bool]) -> Vec<u8> {
    let mut v = vec![0u8; bits.len().div_ceil(8)];
    for (i, b) in bits.iter().enumerate() {
        if *b {
            v[i / 8] |= 0x80 >> (i % 8);
        }
    }
    v
}

pub fn bits_of_u64(n: u64, len: usize) -> Vec<bool> {
    (0..len).map(|i| (n >> (len - 1 - i)) & 1 == 1).collect()
}

pub fn to_string(bits: &[bool]) -> String {
    bits.iter().map(|b| if *b { '1' } else { '0' }).collect()
}

pub fn from_string(s: &str) -> Vec<bool> {
    s.chars().filter(|c| *c == '0' || *c == '1').map(|c| c == '1').collect()
}
