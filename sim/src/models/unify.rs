//! Independent first-order unifier over rational trees (DESIGN.md 3.2, Appendix A).
//!
//! Terms are hash-consed nodes `1 | + | × | var`; equations are solved by closing an
//! equivalence relation over term nodes under decomposition, with an explicit work list. There
//! is no rank heuristic, no path halving and no eager completion: the algorithm shares nothing
//! with the library's union-bound implementation except the mathematics. A solution is finite
//! iff the quotient graph reachable from the queried terms is acyclic; the principal type of a
//! term is its solved form with every remaining variable replaced by `1`.

use simplicity::types::{CompleteBound, Final};
use std::collections::{HashMap, HashSet};

pub type TId = u32;

#[derive(Clone, Copy, PartialEq, Eq, Hash, Debug)]
pub enum TN {
    Var(u32),
    Unit,
    Sum(TId, TId),
    Prod(TId, TId),
}

#[derive(Debug, Clone, PartialEq)]
pub struct Clash;

pub struct Store {
    nodes: Vec<TN>,
    cons: HashMap<TN, TId>,
    parent: Vec<TId>,
    /// for a class root: some non-variable member of the class, if any
    schema: Vec<Option<TId>>,
    n_vars: u32,
    from_final_memo: HashMap<usize, TId>,
    pub unions: u64,
}

impl Default for Store {
    fn default() -> Self {
        Store::new()
    }
}

impl Store {
    pub fn new() -> Store {
        Store {
            nodes: Vec::new(),
            cons: HashMap::new(),
            parent: Vec::new(),
            schema: Vec::new(),
            n_vars: 0,
            from_final_memo: HashMap::new(),
            unions: 0,
        }
    }

    fn push(&mut self, n: TN) -> TId {
        let id = self.nodes.len() as TId;
        self.nodes.push(n);
        self.parent.push(id);
        self.schema.push(if matches!(n, TN::Var(_)) { None } else { Some(id) });
        id
    }

    pub fn var(&mut self) -> TId {
        self.n_vars += 1;
        let v = self.n_vars;
        self.push(TN::Var(v))
    }

    fn mk(&mut self, n: TN) -> TId {
        if let Some(id) = self.cons.get(&n) {
            return *id;
        }
        let id = self.push(n);
        self.cons.insert(n, id);
        id
    }

    pub fn unit(&mut self) -> TId {
        self.mk(TN::Unit)
    }
    pub fn sum(&mut self, a: TId, b: TId) -> TId {
        self.mk(TN::Sum(a, b))
    }
    pub fn prod(&mut self, a: TId, b: TId) -> TId {
        self.mk(TN::Prod(a, b))
    }

    /// 2^(2^n)
    pub fn word(&mut self, n: usize) -> TId {
        let u = self.unit();
        let mut t = self.sum(u, u);
        for _ in 0..n {
            t = self.prod(t, t);
        }
        t
    }

    /// Closed term of a library type (used for jets only: their types are C14's business).
    /// The pointer-keyed memo lives only for the duration of this call, while `f` keeps every
    /// node of the type alive (addresses of freed types are reused by the allocator).
    pub fn from_final(&mut self, f: &Final) -> TId {
        self.from_final_memo.clear();
        let t = self.from_final_rec(f);
        self.from_final_memo.clear();
        t
    }

    fn from_final_rec(&mut self, f: &Final) -> TId {
        let key = f as *const Final as usize;
        if let Some(t) = self.from_final_memo.get(&key) {
            return *t;
        }
        let t = match f.bound() {
            CompleteBound::Unit => self.unit(),
            CompleteBound::Sum(a, b) => {
                let x = self.from_final_rec(a);
                let y = self.from_final_rec(b);
                self.sum(x, y)
            }
            CompleteBound::Product(a, b) => {
                let x = self.from_final_rec(a);
                let y = self.from_final_rec(b);
                self.prod(x, y)
            }
        };
        self.from_final_memo.insert(key, t);
        t
    }

    pub fn find(&mut self, mut x: TId) -> TId {
        let mut root = x;
        while self.parent[root as usize] != root {
            root = self.parent[root as usize];
        }
        while self.parent[x as usize] != root {
            let next = self.parent[x as usize];
            self.parent[x as usize] = root;
            x = next;
        }
        root
    }

    /// Solve `a = b`. On a clash the store keeps whatever was merged so far (like any
    /// destructive unifier); callers treat the whole constraint set as unsatisfiable.
    pub fn unify(&mut self, a: TId, b: TId) -> Result<(), Clash> {
        let mut work = vec![(a, b)];
        while let Some((x, y)) = work.pop() {
            let rx = self.find(x);
            let ry = self.find(y);
            if rx == ry {
                continue;
            }
            let sx = self.schema[rx as usize];
            let sy = self.schema[ry as usize];
            // merge ry into rx
            self.parent[ry as usize] = rx;
            self.unions += 1;
            match (sx, sy) {
                (None, None) => {}
                (None, Some(s)) => self.schema[rx as usize] = Some(s),
                (Some(_), None) => {}
                (Some(p), Some(q)) => match (self.nodes[p as usize], self.nodes[q as usize]) {
                    (TN::Unit, TN::Unit) => {}
                    (TN::Sum(a1, b1), TN::Sum(a2, b2)) | (TN::Prod(a1, b1), TN::Prod(a2, b2)) => {
                        work.push((a1, a2));
                        work.push((b1, b2));
                    }
                    _ => return Err(Clash),
                },
            }
        }
        Ok(())
    }

    fn kids(&mut self, root: TId) -> Option<(TId, TId)> {
        match self.schema[root as usize].map(|s| self.nodes[s as usize]) {
            Some(TN::Sum(a, b)) | Some(TN::Prod(a, b)) => Some((self.find(a), self.find(b))),
            _ => None,
        }
    }

    /// Are all the given terms finite in the current solution?
    pub fn all_finite(&mut self, terms: &[TId]) -> bool {
        // iterative DFS with colours over class roots
        let mut colour: HashMap<TId, u8> = HashMap::new(); // 1 = on stack, 2 = done
        for t in terms {
            let r = self.find(*t);
            if colour.get(&r) == Some(&2) {
                continue;
            }
            let mut stack: Vec<(TId, u8)> = vec![(r, 0)];
            while let Some((n, phase)) = stack.pop() {
                if phase == 0 {
                    match colour.get(&n) {
                        Some(2) => continue,
                        Some(1) => return false,
                        _ => {}
                    }
                    colour.insert(n, 1);
                    stack.push((n, 1));
                    if let Some((a, b)) = self.kids(n) {
                        for k in [b, a] {
                            match colour.get(&k) {
                                Some(2) => {}
                                Some(1) => return false,
                                _ => stack.push((k, 0)),
                            }
                        }
                    }
                } else {
                    colour.insert(n, 2);
                }
            }
        }
        true
    }

    /// Does the library type equal the principal type of `t` (remaining variables := 1)?
    /// Only call when `t` is finite. Structural walk, memoised on (class, pointer) pairs.
    pub fn principal_equals(&mut self, t: TId, f: &Final) -> bool {
        let mut seen: HashSet<(TId, usize)> = HashSet::new();
        let mut stack: Vec<(TId, &Final)> = vec![(t, f)];
        while let Some((t, f)) = stack.pop() {
            let r = self.find(t);
            if !seen.insert((r, f as *const Final as usize)) {
                continue;
            }
            let shape = self.schema[r as usize].map(|s| self.nodes[s as usize]);
            match (shape, f.bound()) {
                (None, CompleteBound::Unit) | (Some(TN::Unit), CompleteBound::Unit) => {}
                (Some(TN::Sum(a, b)), CompleteBound::Sum(x, y)) | (Some(TN::Prod(a, b)), CompleteBound::Product(x, y)) => {
                    stack.push((a, x));
                    stack.push((b, y));
                }
                _ => return false,
            }
        }
        true
    }

    /// Short rendering of the principal type, for messages (bounded).
    pub fn render(&mut self, t: TId, budget: &mut usize) -> String {
        if *budget == 0 {
            return "…".into();
        }
        *budget -= 1;
        let r = self.find(t);
        match self.schema[r as usize].map(|s| self.nodes[s as usize]) {
            None | Some(TN::Unit) => "1".into(),
            Some(TN::Sum(a, b)) => format!("({} + {})", self.render(a, budget), self.render(b, budget)),
            Some(TN::Prod(a, b)) => format!("({} × {})", self.render(a, budget), self.render(b, budget)),
            Some(TN::Var(_)) => "?".into(),
        }
    }
}

#[cfg(test)]
mod tests {
    use super::*;

    #[test]
    fn basics() {
        let mut s = Store::new();
        let a = s.var();
        let b = s.var();
        let u = s.unit();
        let ab = s.sum(a, b);
        let c = s.var();
        assert!(s.unify(c, ab).is_ok());
        assert!(s.unify(a, u).is_ok());
        assert!(s.all_finite(&[c]));
        // c = a + b, and c = c' × d clashes
        let d = s.var();
        let e = s.var();
        let de = s.prod(d, e);
        assert_eq!(s.unify(c, de), Err(Clash));
        // occurs: x = x + 1 is solvable over rational trees but infinite
        let mut s = Store::new();
        let x = s.var();
        let u = s.unit();
        let xu = s.sum(x, u);
        assert!(s.unify(x, xu).is_ok());
        assert!(!s.all_finite(&[x]));
        let y = s.var();
        assert!(s.all_finite(&[y, u]));
        // two cyclic types unify without diverging
        let z = s.var();
        let zu = s.sum(z, u);
        assert!(s.unify(z, zu).is_ok());
        assert!(s.unify(x, z).is_ok());
        // word sizes
        let mut s = Store::new();
        let w = s.word(3);
        let f = Final::two_two_n(3).unwrap();
        assert!(s.principal_equals(w, &f));
        let f2 = Final::two_two_n(4).unwrap();
        assert!(!s.principal_equals(w, &f2));
        let ff = s.from_final(&f);
        assert_eq!(ff, w);
    }
}
