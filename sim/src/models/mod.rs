pub mod bits;
pub mod natural;
pub mod value;
