pub mod bits;
pub mod natural;
