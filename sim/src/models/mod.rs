pub mod bits;
pub mod natural;
pub mod unify;
pub mod value;
