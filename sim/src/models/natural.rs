//! Reference codec for Simplicity's self-delimiting natural numbers, transcribed from the
//! recursive definition (Tech Report, serialization of positive integers):
//!
//!   nat(1) = 0
//!   nat(n) = 1 · nat(k) · (low k bits of n)      for n >= 2, k = floor(log2 n)
//!
//! Arithmetic is done in u128 so that the model can name numbers the library must reject.

/// Encode n >= 1.
pub fn encode(n: u128) -> Vec<bool> {
    assert!(n >= 1);
    if n == 1 {
        return vec![false];
    }
    let k = 127 - n.leading_zeros() as usize; // floor(log2 n)
    let mut v = vec![true];
    v.extend(encode(k as u128));
    for i in (0..k).rev() {
        v.push((n >> i) & 1 == 1);
    }
    v
}

#[derive(Clone, Debug, PartialEq, Eq)]
pub enum Decoded {
    /// value and number of bits consumed
    Num(u128, usize),
    /// The denoted number is at least 2^100 (certainly out of every supported range);
    /// consumption is unspecified.
    Huge,
    /// The bit string ended before the number did.
    Eof,
}

/// Decode the number at the start of `bits`.
pub fn decode(bits: &[bool]) -> Decoded {
    fn go(bits: &[bool], pos: &mut usize) -> Decoded {
        if *pos >= bits.len() {
            return Decoded::Eof;
        }
        let b = bits[*pos];
        *pos += 1;
        if !b {
            return Decoded::Num(1, *pos);
        }
        let k = match go(bits, pos) {
            Decoded::Num(k, _) => k,
            other => return other,
        };
        if k >= 100 {
            return Decoded::Huge;
        }
        let k = k as usize;
        let mut n: u128 = 1;
        for _ in 0..k {
            if *pos >= bits.len() {
                return Decoded::Eof;
            }
            n = 2 * n + u128::from(bits[*pos]);
            *pos += 1;
        }
        Decoded::Num(n, *pos)
    }
    let mut pos = 0;
    go(bits, &mut pos)
}

#[cfg(test)]
mod tests {
    use super::*;
    use crate::models::bits::{from_string, to_string};

    #[test]
    fn vectors() {
        // Hand-computed from the definition.
        assert_eq!(to_string(&encode(1)), "0");
        assert_eq!(to_string(&encode(2)), "100");
        assert_eq!(to_string(&encode(3)), "101");
        assert_eq!(to_string(&encode(4)), "110000");
        assert_eq!(to_string(&encode(5)), "110001");
        assert_eq!(to_string(&encode(7)), "110011");
        assert_eq!(to_string(&encode(8)), "1101000");
        assert_eq!(to_string(&encode(15)), "1101111");
        // 16: k=4, nat(4)=110000 -> 1 110000 0000
        assert_eq!(to_string(&encode(16)), "11100000000");
        for n in 1..5000u128 {
            let e = encode(n);
            assert_eq!(decode(&e), Decoded::Num(n, e.len()));
            let mut e2 = e.clone();
            e2.push(true);
            assert_eq!(decode(&e2), Decoded::Num(n, e.len()));
            if e.len() > 1 {
                assert_eq!(decode(&e[..e.len() - 1]), Decoded::Eof);
            }
        }
        assert_eq!(decode(&from_string("")), Decoded::Eof);
    }
}
