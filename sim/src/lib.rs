pub mod alloc;
pub mod engines;
pub mod gen;
pub mod models;
pub mod pool;
pub mod rng;
pub mod stream;
pub mod sup;
