pub mod engines;
pub mod models;
pub mod rng;
pub mod stream;
pub mod sup;
