//! Long-lived threads with plan-chosen stack sizes. A job runs on exactly one of them while the
//! caller waits, so execution stays sequential and deterministic; a stack overflow kills the
//! process, which the supervisor turns into a replayable crash report.

use std::sync::mpsc::{channel, Sender};

type Job = Box<dyn FnOnce() + Send>;

pub struct StackPool {
    sizes: Vec<usize>,
    txs: Vec<Option<Sender<Job>>>,
}

impl StackPool {
    pub fn new(sizes: &[usize]) -> StackPool {
        StackPool {
            sizes: sizes.to_vec(),
            txs: sizes.iter().map(|_| None).collect(),
        }
    }

    pub fn sizes(&self) -> &[usize] {
        &self.sizes
    }

    /// Run `f` on the thread whose stack is `sizes[idx]` and wait for the result.
    pub fn run<R: Send + 'static>(&mut self, idx: usize, f: impl FnOnce() -> R + Send + 'static) -> R {
        if self.txs[idx].is_none() {
            let (tx, rx) = channel::<Job>();
            std::thread::Builder::new()
                .stack_size(self.sizes[idx])
                .name(format!("sim-stack-{}", self.sizes[idx]))
                .spawn(move || {
                    while let Ok(job) = rx.recv() {
                        job();
                    }
                })
                .expect("spawn pool thread");
            self.txs[idx] = Some(tx);
        }
        let (rtx, rrx) = channel::<R>();
        self.txs[idx]
            .as_ref()
            .unwrap()
            .send(Box::new(move || {
                let r = f();
                let _ = rtx.send(r);
            }))
            .expect("pool thread alive");
        rrx.recv().expect("pool thread answered")
    }
}
