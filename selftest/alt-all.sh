#!/usr/bin/env bash
# ./selftest/alt-all.sh [patches|seeded|all] [id-or-name-substring]
# Same as sensitivity.sh / seeded.sh, but never touches /repo: every change is applied to a scratch
# worktree (/tmp/wt-selftest, created from /repo's HEAD and removed at the end) and the quick check
# runs against that worktree through altrepo.sh (harness copy and build output under /tmp/altverif,
# removed at the end). Safe to run while checks are running against /repo.
set -u
HERE="$(cd "$(dirname "${BASH_SOURCE[0]}")/.." && pwd)"
what="${1:-all}"; filter="${2:-}"
WT=/tmp/wt-selftest
git -C /repo worktree remove --force "$WT" >/dev/null 2>&1; rm -rf "$WT"
git -C /repo worktree add -q --detach "$WT" HEAD || { echo "cannot create $WT"; exit 2; }
cleanup() { git -C /repo worktree remove --force "$WT" >/dev/null 2>&1; rm -rf /tmp/altverif; }
trap cleanup EXIT
ok=0; miss=0
one() { # <label> <property> <patch> <negative-control?>
  local label="$1" prop="$2" patch="$3" neg="$4"
  git -C "$WT" reset -q --hard HEAD
  if ! git -C "$WT" apply "$patch" 2>/dev/null; then
    if ! git -C "$WT" apply --3way "$patch" >/dev/null 2>&1; then echo "SKIP   $label (patch does not apply)"; miss=$((miss+1)); return; fi
    git -C "$WT" reset -q
  fi
  local t0=$(date +%s) out rc
  out="$("$HERE"/selftest/altrepo.sh "$WT" "$prop" --tier quick 2>&1)"; rc=$?
  local t1=$(date +%s)
  local viol="$(echo "$out" | grep -m1 '^violation:' | cut -c1-150)"
  if [ "$neg" = 1 ]; then
    if [ $rc -eq 0 ]; then echo "GREEN  $label [$prop, $((t1-t0))s] (semantically neutral change: check stays green, as it must)"; ok=$((ok+1)); else echo "FALSE-ALARM $label rc=$rc $viol"; miss=$((miss+1)); fi
    return
  fi
  if [ $rc -eq 1 ]; then echo "CAUGHT $label [$prop, $((t1-t0))s] $viol"; ok=$((ok+1));
  elif [ $rc -eq 0 ]; then echo "MISSED $label [$prop, $((t1-t0))s]"; miss=$((miss+1));
  else echo "ERROR  $label rc=$rc $(echo "$out" | tail -n 3 | tr '\n' ' ' | cut -c1-300)"; miss=$((miss+1)); fi
}
if [ "$what" = patches ] || [ "$what" = all ]; then
  for p in "$HERE"/selftest/patches/*/*.diff; do
    id="$(basename "$(dirname "$p")")"; name="$(basename "$p" .diff)"
    case "$id/$name" in *"$filter"*) ;; *) continue ;; esac
    neg=0; case "$name" in NEGATIVE-CONTROL*) neg=1;; esac
    one "patch:$id/$name" "$id" "$p" "$neg"
  done
fi
if [ "$what" = seeded ] || [ "$what" = all ]; then
  for d in "$HERE"/seeded/*/; do
    id="$(basename "$d")"
    case "$id" in *"$filter"*) ;; *) continue ;; esac
    prop="$(python3 -c "import json,sys; print(json.load(open(sys.argv[1]))['breaks_property'])" "$d/meta.json")"
    one "seeded:$id" "$prop" "$d/patch.diff" 0
  done
fi
echo "caught_or_green=$ok missed_or_error=$miss"
[ $miss -eq 0 ]
