#!/usr/bin/env bash
# ./selftest/determinism.sh [n_seeds]
# For every engine and n_seeds values of VERIF_SEED: run a reduced batch twice in separate process
# trees with 16 workers and once with 3 workers; the run digests (plans executed, counters,
# violation groups — never wall-clock quantities) must be identical. Exit 1 on any divergence.
set -u
HERE="$(cd "$(dirname "${BASH_SOURCE[0]}")/.." && pwd)"
N="${1:-8}"
"$HERE/check" setup >/dev/null || exit 2
SIM="$HERE/sim/target/release"; SH="$HERE/shuttle/target/release"
bad=0; total=0
run() { # run <label> <runs> <cmd...>
  local label="$1" runs="$2"; shift 2
  for seed in $(seq 1 "$N"); do
    L="${TMPDIR:-/tmp}/verif-determinism"; mkdir -p "$L"
    VERIF_WORKERS=16 "$@" --seed "$seed" --runs "$runs" --no-evidence --no-minimise >"$L/$label-$seed-a.log" 2>&1
    VERIF_WORKERS=16 "$@" --seed "$seed" --runs "$runs" --no-evidence --no-minimise >"$L/$label-$seed-b.log" 2>&1
    VERIF_WORKERS=3  "$@" --seed "$seed" --runs "$runs" --no-evidence --no-minimise >"$L/$label-$seed-c.log" 2>&1
    a=$(grep -o 'run_digest=[0-9a-f]*' "$L/$label-$seed-a.log"); b=$(grep -o 'run_digest=[0-9a-f]*' "$L/$label-$seed-b.log"); c=$(grep -o 'run_digest=[0-9a-f]*' "$L/$label-$seed-c.log")
    total=$((total+1))
    if [ -z "$a" ] || [ "$a" != "$b" ] || [ "$a" != "$c" ]; then echo "DIVERGED $label seed=$seed: $a | $b | $c (logs kept in $L)"; bad=$((bad+1)); else rm -f "$L/$label-$seed-"?.log; fi
  done
  echo "$label: $N seeds x (2 runs at 16 workers + 1 run at 3 workers), runs per batch $runs"
}
run C13 400 "$SIM/c13"
run C02 120 "$SIM/c02"
run C10 20000 "$SIM/valsim" --prop C10
run C11 20000 "$SIM/valsim" --prop C11
run C04 6000 "$SIM/c04"
run C04-lock 6000 "$SH/c04lock"
run C20 24 "$SH/c20"
rm -f "$HERE"/replays/*.json
echo "batches compared: $total, diverged: $bad"
[ "$bad" -eq 0 ]
