#!/usr/bin/env bash
# ./selftest/altrepo.sh <other-checkout-of-the-repo> <check arguments...>
# Runs ./check against ANOTHER checkout of the repository (e.g. a scratch worktree carrying a seeded
# mutation) without touching /repo: the harness is copied to /tmp/altverif (build output is kept
# there between calls and must be removed by the caller: rm -rf /tmp/altverif), every "/repo" path
# in the manifests is rewritten, evidence writing is disabled. Never used by registered commands.
set -u
HERE="$(cd "$(dirname "${BASH_SOURCE[0]}")/.." && pwd)"
alt="$(cd "$1" && pwd)" || exit 2; shift
dst="${ALTVERIF_DIR:-/tmp/altverif}"
mkdir -p "$dst"
rsync -a --delete --exclude target --exclude replays --exclude evidence --exclude .git --exclude shadow --exclude 'build.log' "$HERE"/ "$dst"/
mkdir -p "$dst/replays" "$dst/evidence"
sed -i "s|path = \"/repo\"|path = \"$alt\"|" "$dst/sim/Cargo.toml" "$dst/miri/Cargo.toml"
sed -i "s|/repo/|$alt/|g" "$dst/mkshadow.sh"
cd "$dst" && exec ./check "$@" --no-evidence
