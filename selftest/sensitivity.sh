#!/usr/bin/env bash
# ./selftest/sensitivity.sh <ID> [patch-name-substring]
# Applies each deliberate property-breaking patch in selftest/patches/<ID>/ to /repo, runs the
# quick check (expects exit 1 + VIOLATION), reverts /repo immediately. With VERIF_SENS_TESTS=1 it
# also runs the repository's own test suite on the patched tree and reports whether it still passes.
set -u
HERE="$(cd "$(dirname "${BASH_SOURCE[0]}")/.." && pwd)"
id="$1"; filter="${2:-}"
cd /repo
if [ -n "$(git status --porcelain --untracked-files=no)" ]; then echo "refusing: /repo has uncommitted changes"; exit 2; fi
trap 'git -C /repo reset -q --hard HEAD >/dev/null 2>&1' EXIT
ok=0; miss=0
for p in "$HERE"/selftest/patches/"$id"/*.diff; do
  name="$(basename "$p" .diff)"
  case "$name" in *"$filter"*) ;; *) continue ;; esac
  if ! git apply "$p" 2>/dev/null; then
    # hook commits shift context lines: fall back to a three-way merge
    if ! git apply --3way "$p" >/dev/null 2>&1; then git reset -q --hard HEAD; echo "SKIP   $name (patch does not apply)"; continue; fi
    git reset -q
  fi
  tests="-"
  if [ "${VERIF_SENS_TESTS:-0}" = 1 ]; then
    if CARGO_NET_OFFLINE=true cargo test --workspace --offline >/dev/null 2>&1; then tests="suite-passes"; else tests="suite-FAILS"; fi
  fi
  out="$("$HERE"/check "$id" --tier quick --no-evidence 2>&1)"; rc=$?
  git reset -q --hard HEAD >/dev/null 2>&1
  viol="$(echo "$out" | grep -m1 '^violation:' | cut -c1-160)"
  case "$name" in NEGATIVE-CONTROL*)
    if [ $rc -eq 0 ]; then echo "GREEN  $name [$tests] (semantically neutral change: check stays green, as it must)"; ok=$((ok+1)); else echo "FALSE-ALARM $name rc=$rc $viol"; miss=$((miss+1)); fi; continue;;
  esac
  if [ $rc -eq 1 ]; then echo "CAUGHT $name [$tests] $viol"; ok=$((ok+1));
  elif [ $rc -eq 0 ]; then echo "MISSED $name [$tests]"; miss=$((miss+1));
  else echo "ERROR  $name rc=$rc [$tests] $(echo "$out" | tail -n 3 | tr '\n' ' ' | cut -c1-300)"; miss=$((miss+1)); fi
done
rm -f "$HERE"/replays/*.json.tmp
echo "caught=$ok missed_or_error=$miss"
[ $miss -eq 0 ]
