#!/usr/bin/env bash
# ./selftest/seeded.sh [id-substring]
# Applies every independently seeded change in /verif/seeded/<id>/patch.diff to /repo, runs the
# quick check of the property it breaks (expects exit 1 + VIOLATION), restores /repo.
set -u
HERE="$(cd "$(dirname "${BASH_SOURCE[0]}")/.." && pwd)"
filter="${1:-}"
cd /repo
if [ -n "$(git status --porcelain --untracked-files=no)" ]; then echo "refusing: /repo has uncommitted changes"; exit 2; fi
trap 'git -C /repo reset -q --hard HEAD >/dev/null 2>&1' EXIT
ok=0; miss=0
for d in "$HERE"/seeded/*/; do
  id="$(basename "$d")"
  case "$id" in *"$filter"*) ;; *) continue ;; esac
  prop="$(python3 -c "import json,sys; print(json.load(open(sys.argv[1]))['breaks_property'])" "$d/meta.json")"
  if ! git apply "$d/patch.diff" 2>/dev/null; then
    if ! git apply --3way "$d/patch.diff" >/dev/null 2>&1; then git reset -q --hard HEAD; echo "SKIP   $id (patch does not apply)"; miss=$((miss+1)); continue; fi
    git reset -q
  fi
  t0=$(date +%s)
  out="$("$HERE"/check "$prop" --tier quick --no-evidence 2>&1)"; rc=$?
  t1=$(date +%s)
  git reset -q --hard HEAD >/dev/null 2>&1
  viol="$(echo "$out" | grep -m1 '^violation:' | cut -c1-170)"
  if [ $rc -eq 1 ]; then echo "CAUGHT $id [$prop, $((t1-t0))s] $viol"; ok=$((ok+1));
  elif [ $rc -eq 0 ]; then echo "MISSED $id [$prop, $((t1-t0))s]"; miss=$((miss+1));
  else echo "ERROR  $id rc=$rc $(echo "$out" | tail -n 3 | tr '\n' ' ' | cut -c1-300)"; miss=$((miss+1)); fi
done
find "$HERE/replays" -name '*.json' -delete 2>/dev/null
echo "caught=$ok missed_or_error=$miss"
[ $miss -eq 0 ]
