//! C20, second leg: the same kind of workload as the shuttle leg, restricted to what Miri can
//! execute (no FFI: jet-free Core programs, no policies, no Elements environment), run as real
//! `std::thread`s under Miri's seeded scheduler (`-Zmiri-many-seeds`, `-Zmiri-preemption-rate`).
//! Oracle: digest of every operation equals its digest from the sequential baseline, plus
//! Miri's own data-race and undefined-behaviour detection.
//!
//! usage: vmiri <verif_seed> <n_workloads>      (arguments, never environment variables)

#[path = "../../sim/src/rng.rs"]
pub mod rng;
#[path = "../../sim/src/stream.rs"]
pub mod stream;
pub mod gen {
    #[path = "../../../sim/src/gen/programs.rs"]
    pub mod programs;
    #[path = "../../../sim/src/gen/values.rs"]
    pub mod values;
}

use gen::programs::{self, Family};
use rng::{mix, Fnv, Rng};
use simplicity::dag::{DagLike, InternalSharing};
use simplicity::human_encoding::Forest;
use simplicity::ffi::c_jets::frame_ffi::{c_readBit, c_writeBit, CFrameItem};
use simplicity::jet::{Core, JetEnvironment};
use simplicity::node::CoreConstructible;
use simplicity::types;
use simplicity::{BitIter, BitMachine, CommitNode, ConstructNode, RedeemNode, Value};
use std::sync::Arc;

/// A jet environment whose jets are Rust functions (Miri cannot call the C jets). Together with the
/// `cfg(miri)` frame primitives in simplicity-sys this lets the Rust side of jet execution run under
/// Miri: marshalling of the input frame, the call through `c_jet_ptr`, unmarshalling of the output.
/// The functions need not equal the real jets bit for bit: the reference run uses the same
/// environment.
struct RustJets;

fn rd(src: &mut CFrameItem, n: usize) -> u64 {
    let mut v = 0u64;
    for _ in 0..n {
        v = (v << 1) | u64::from(unsafe { c_readBit(src) });
    }
    v
}

fn wr(dst: &mut CFrameItem, v: u64, n: usize) {
    for i in (0..n).rev() {
        unsafe { c_writeBit(dst, (v >> i) & 1 == 1) };
    }
}

fn j_add32(dst: &mut CFrameItem, mut src: CFrameItem, _: &()) -> bool {
    let a = rd(&mut src, 32);
    let b = rd(&mut src, 32);
    let s = a + b;
    wr(dst, s >> 32, 1);
    wr(dst, s & 0xffff_ffff, 32);
    true
}
fn j_xor32(dst: &mut CFrameItem, mut src: CFrameItem, _: &()) -> bool {
    let a = rd(&mut src, 32);
    let b = rd(&mut src, 32);
    wr(dst, a ^ b, 32);
    true
}
fn j_complement8(dst: &mut CFrameItem, mut src: CFrameItem, _: &()) -> bool {
    let a = rd(&mut src, 8);
    wr(dst, !a & 0xff, 8);
    true
}
fn j_eq32(dst: &mut CFrameItem, mut src: CFrameItem, _: &()) -> bool {
    let a = rd(&mut src, 32);
    let b = rd(&mut src, 32);
    wr(dst, u64::from(a == b), 1);
    true
}
fn j_unsupported(_: &mut CFrameItem, _: CFrameItem, _: &()) -> bool {
    false
}

impl JetEnvironment for RustJets {
    type Jet = Core;
    type CJetEnvironment = ();
    fn c_jet_env(&self) -> &() {
        &()
    }
    fn c_jet_ptr(jet: &Core) -> fn(&mut CFrameItem, CFrameItem, &()) -> bool {
        match jet {
            Core::Add32 => j_add32,
            Core::Xor32 => j_xor32,
            Core::Complement8 => j_complement8,
            Core::Eq32 => j_eq32,
            _ => j_unsupported,
        }
    }
}

fn supported_jets() -> Vec<usize> {
    let want = [Core::Add32, Core::Xor32, Core::Complement8, Core::Eq32];
    Core::ALL.iter().enumerate().filter(|(_, j)| want.contains(j)).map(|(i, _)| i).collect()
}

/// Tracker that hashes the output bits of every terminal node (jets included), so that the digest
/// of an execution covers every intermediate result, not only the program's final output.
struct HashTracker(Fnv);

impl simplicity::bit_machine::ExecTracker for HashTracker {
    fn visit_node(&mut self, node: &RedeemNode, _input: simplicity::bit_machine::FrameIter, output: simplicity::bit_machine::NodeOutput) {
        use simplicity::bit_machine::NodeOutput;
        match output {
            NodeOutput::Success(mut it) => {
                self.0.u8(1);
                let w = node.arrow().target.bit_width().min(4096);
                for _ in 0..w {
                    match it.next() {
                        Some(b) => self.0.u8(u8::from(b)),
                        None => {
                            self.0.u8(9);
                            break;
                        }
                    }
                }
            }
            NodeOutput::JetFailed => self.0.u8(2),
            NodeOutput::NonTerminal => self.0.u8(3),
        }
    }
}

#[derive(Clone, Debug)]
enum Op {
    Decode,
    DecodeFlipped(usize),
    DecodeCommit,
    Roots,
    Unfinalize,
    ToConstruct,
    Exec,
    Prune,
    Build(u64),
    IllTyped(u8),
    Human(usize),
    Values(u64),
    TypeTables(u64),
    /// two extra threads build over shared nodes in one inference context
    SharedContext(u64),
    DropShared,
    /// sits a round out (staggered participation)
    Idle,
}

fn dig(tag: &str, parts: &[&[u8]]) -> u64 {
    let mut h = Fnv::new();
    h.str(tag);
    for p in parts {
        h.u64(p.len() as u64);
        h.bytes(p);
    }
    h.0
}

fn redeem_digest(p: &RedeemNode) -> u64 {
    let (a, b) = p.to_vec_with_witness();
    dig("redeem", &[&a, &b, p.cmr().as_ref(), p.ihr().as_ref(), p.amr().as_ref()])
}

fn decode(p: &[u8], w: &[u8]) -> Option<Arc<RedeemNode>> {
    RedeemNode::decode::<_, _, Core>(BitIter::new(p.iter().copied()), BitIter::new(w.iter().copied())).ok()
}

const HUMAN: [&str; 3] = ["main := comp unit unit", "main := comp (pair unit unit) unit", "main := comp (injl unit) (case unit unit)"];

fn run_op(op: &Op, prog: &[u8], wit: &[u8], mine: &mut Option<Arc<RedeemNode>>, concurrent: bool) -> u64 {
    match op {
        Op::Decode => decode(prog, wit).map(|p| redeem_digest(&p)).unwrap_or(3),
        Op::DecodeFlipped(b) => {
            let mut p = prog.to_vec();
            if !p.is_empty() {
                let bit = b % (p.len() * 8);
                p[bit / 8] ^= 0x80 >> (bit % 8);
            }
            decode(&p, wit).map(|p| redeem_digest(&p)).unwrap_or(3)
        }
        Op::DecodeCommit => match CommitNode::decode::<_, Core>(BitIter::new(prog.iter().copied())) {
            Ok(c) => dig("commit", &[&c.to_vec_without_witness(), c.cmr().as_ref()]),
            Err(_) => 4,
        },
        Op::Roots => match mine {
            Some(p) => {
                let mut h = Fnv::new();
                for d in p.as_ref().post_order_iter::<InternalSharing>() {
                    h.bytes(d.node.cmr().as_ref());
                    h.bytes(d.node.ihr().as_ref());
                    h.bytes(d.node.amr().as_ref());
                    h.bytes(d.node.arrow().source.tmr().as_ref());
                    h.u64(d.node.bounds().extra_cells as u64);
                }
                h.0
            }
            None => 1,
        },
        Op::Unfinalize => match mine {
            Some(p) => match p.unfinalize() {
                Ok(c) => types::Context::with_context(|ctx| match c.unfinalize_types(&ctx).and_then(|cn| cn.finalize_types()) {
                    Ok(c2) => dig("refinalized", &[&c2.to_vec_without_witness(), c2.cmr().as_ref()]),
                    Err(_) => 5,
                }),
                Err(_) => 6,
            },
            None => 1,
        },
        Op::ToConstruct => match mine {
            Some(p) => types::Context::with_context(|ctx| match p.to_construct_node(&ctx).finalize_unpruned() {
                Ok(r) => redeem_digest(&r),
                Err(_) => 7,
            }),
            None => 1,
        },
        Op::Exec => match mine {
            Some(p) => match BitMachine::for_program(p) {
                Ok(mut mac) => {
                    let mut tr = HashTracker(Fnv::new());
                    match mac.exec_with_tracker(p, &RustJets, &mut tr) {
                        Ok(v) => {
                            let bits: Vec<u8> = v.iter_compact().map(u8::from).collect();
                            dig("exec-ok", &[&bits, &tr.0 .0.to_le_bytes()])
                        }
                        Err(_) => dig("exec-err", &[&tr.0 .0.to_le_bytes()]),
                    }
                }
                Err(_) => 9,
            },
            None => 1,
        },
        Op::Prune => match mine {
            Some(p) => match p.prune(&RustJets) {
                Ok(q) => redeem_digest(&q),
                Err(_) => 10,
            },
            None => 1,
        },
        Op::Build(seed) => {
            let mut r = Rng::new(*seed);
            let rec = programs::jetfree_recipe(&mut r, 6);
            programs::build(&rec).map(|b| redeem_digest(&b.redeem)).unwrap_or(11)
        }
        Op::IllTyped(k) => types::Context::with_context(|ctx| {
            type N<'a> = Arc<ConstructNode<'a>>;
            let iden = N::iden(&ctx);
            let dr = N::drop_(&iden);
            let r = if k % 2 == 0 {
                N::case(&iden, &dr).ok().map(|c| c.finalize_types_non_program().is_ok())
            } else {
                let unit = N::unit(&ctx);
                let _ = N::comp(&unit, &unit);
                let tk = N::take(&unit);
                Some(N::pair(&unit, &tk).is_ok())
            };
            match r {
                Some(true) => 12,
                Some(false) => 13,
                None => 14,
            }
        }),
        Op::Human(k) => match Forest::parse::<Core>(HUMAN[k % HUMAN.len()]) {
            Ok(f) => {
                let mut h = Fnv::new();
                h.str(&f.string_serialize());
                h.0
            }
            Err(_) => 15,
        },
        Op::Values(seed) => {
            let mut r = Rng::new(*seed);
            let a = Value::product(Value::u4(r.byte() & 15), Value::u4(r.byte() & 15));
            let b = Value::some(Value::u8(r.byte()));
            let l = a.as_product().map(|(l, _)| l.to_value());
            let bits: Vec<u8> = b.iter_compact().map(u8::from).collect();
            dig("values", &[&bits, &[u8::from(l.as_ref() == Some(&Value::u4(3)))], &[u8::from(a == b)]])
        }
        Op::TypeTables(seed) => type_tables_op(*seed),
        Op::SharedContext(seed) => shared_context_op(*seed, concurrent),
        Op::DropShared => {
            *mine = None;
            2
        }
        Op::Idle => 0,
    }
}

fn final_digest(h: &mut Fnv, f: &simplicity::types::Final) {
    h.u64(f.bit_width() as u64);
    h.u8(u8::from(f.has_padding()));
    h.bytes(f.tmr().as_ref());
    let mut stack = vec![(f, 0usize)];
    let mut n = 0;
    while let Some((t, d)) = stack.pop() {
        n += 1;
        if n > 60 {
            break;
        }
        match t.bound() {
            simplicity::types::CompleteBound::Unit => h.u8(1),
            simplicity::types::CompleteBound::Sum(a, b) => {
                h.u8(2);
                h.u64(a.bit_width() as u64);
                if d < 8 {
                    stack.push((b, d + 1));
                    stack.push((a, d + 1));
                }
            }
            simplicity::types::CompleteBound::Product(a, b) => {
                h.u8(3);
                h.u64(b.bit_width() as u64);
                if d < 8 {
                    stack.push((b, d + 1));
                    stack.push((a, d + 1));
                }
            }
        }
    }
}

/// Touch every lazily initialised type table through several entry points, in a seeded order.
/// The digest is order-independent per item (items are hashed in a canonical order), so threads
/// that use different orders still have to agree with the sequential reference.
fn type_tables_op(seed: u64) -> u64 {
    use simplicity::types::Final;
    let mut r = Rng::new(seed);
    let mut items: Vec<u8> = (0..22).collect();
    r.shuffle(&mut items);
    let mut per_item: Vec<(u8, u64)> = Vec::new();
    for it in items {
        let mut h = Fnv::new();
        match it {
            0..=7 => {
                if let Ok(t) = Final::buffer8_two_n_plus_one(it as usize) {
                    final_digest(&mut h, &t);
                }
            }
            8 => final_digest(&mut h, &Final::ctx8()),
            9 => {
                if let Ok(v) = Value::ctx8([7; 32], 99, &[1, 2, 3]) {
                    final_digest(&mut h, v.ty());
                    h.u8(u8::from(v.is_of_type(&Final::ctx8())));
                    h.u64(v.compact_len() as u64);
                }
            }
            10 | 11 => {
                let n = (it - 10) as usize + 1;
                if let Ok(v) = Value::buffer8_two_n_plus_one(n, &[0xab; 3][..(n + 1).min(3)]) {
                    final_digest(&mut h, v.ty());
                    h.u64(v.compact_len() as u64);
                }
            }
            _ => final_digest(&mut h, &Final::two_two_n((it - 12) as usize).unwrap()),
        }
        per_item.push((it, h.0));
    }
    per_item.sort();
    let mut h = Fnv::new();
    for (i, d) in per_item {
        h.u8(i);
        h.u64(d);
    }
    h.0
}

/// Two threads, one inference context (see the shuttle leg for the rationale): the constraint set
/// is used only if it is satisfiable in both sequential orders.
fn shared_context_op(seed: u64, concurrent: bool) -> u64 {
    use simplicity::Cmr;
    type N<'a> = Arc<ConstructNode<'a>>;
    #[derive(Clone, Copy)]
    struct Step {
        kind: u8,
        a: usize,
        b: usize,
    }
    let mut r = Rng::new(seed);
    let n_shared = r.urange(1, 3);
    let leaf_kinds: Vec<u8> = (0..n_shared).map(|_| r.below(3) as u8).collect();
    let gen_steps = |r: &mut Rng| -> Vec<Step> {
        let n = r.urange(1, 3);
        (0..n).map(|i| Step { kind: r.below(8) as u8, a: r.usize_below(n_shared + i), b: r.usize_below(n_shared + i) }).collect()
    };
    let steps_a = gen_steps(&mut r);
    let steps_b = gen_steps(&mut r);
    fn leaves<'b>(ctx: &types::Context<'b>, kinds: &[u8]) -> Vec<N<'b>> {
        kinds
            .iter()
            .map(|k| match k {
                0 => N::iden(ctx),
                1 => simplicity::node::WitnessConstructible::witness(ctx, None),
                _ => N::unit(ctx),
            })
            .collect()
    }
    fn build<'b>(shared: &[N<'b>], steps: &[Step]) -> (bool, Vec<N<'b>>) {
        let mut own: Vec<N<'b>> = Vec::new();
        for st in steps {
            let pick = |i: usize, own: &Vec<N<'b>>| -> N<'b> {
                if i < shared.len() || own.is_empty() {
                    Arc::clone(&shared[i % shared.len()])
                } else {
                    Arc::clone(&own[(i - shared.len()) % own.len()])
                }
            };
            let a = pick(st.a, &own);
            let b = pick(st.b, &own);
            let res: Result<N<'b>, types::Error> = match st.kind {
                0 => N::comp(&a, &b),
                1 => N::pair(&a, &b),
                2 => N::case(&a, &b),
                3 => N::assertl(&a, Cmr::from_byte_array([3; 32])),
                4 => N::assertr(Cmr::from_byte_array([4; 32]), &a),
                5 => Ok(N::injl(&a)),
                6 => Ok(N::take(&a)),
                _ => Ok(N::drop_(&a)),
            };
            match res {
                Ok(n) => own.push(n),
                Err(_) => return (false, own),
            }
        }
        (true, own)
    }
    fn digest_nodes(h: &mut Fnv, nodes: &[N<'_>]) {
        for n in nodes {
            match n.arrow().finalize() {
                Ok(a) => {
                    h.bytes(a.source.tmr().as_ref());
                    h.bytes(a.target.tmr().as_ref());
                }
                Err(_) => h.u8(0xee),
            }
        }
    }
    let sat = |first: &[Step], second: &[Step]| -> bool {
        types::Context::with_context(|ctx| {
            let sh = leaves(&ctx, &leaf_kinds);
            build(&sh, first).0 && build(&sh, second).0
        })
    };
    if !(sat(&steps_a, &steps_b) && sat(&steps_b, &steps_a)) {
        return dig("shared-context-unsat", &[]);
    }
    types::Context::with_context(|ctx| {
        let sh = leaves(&ctx, &leaf_kinds);
        let (ra, rb) = if concurrent {
            std::thread::scope(|s| {
                let ha = s.spawn(|| build(&sh, &steps_a));
                let hb = s.spawn(|| build(&sh, &steps_b));
                (ha.join().expect("thread a"), hb.join().expect("thread b"))
            })
        } else {
            (build(&sh, &steps_a), build(&sh, &steps_b))
        };
        let mut h = Fnv::new();
        h.u8(u8::from(ra.0));
        h.u8(u8::from(rb.0));
        digest_nodes(&mut h, &sh);
        digest_nodes(&mut h, &ra.1);
        digest_nodes(&mut h, &rb.1);
        h.0
    })
}

fn gen_ops(r: &mut Rng, n: usize) -> Vec<Op> {
    (0..n)
        .map(|_| match r.below(17) {
            0 => Op::Decode,
            1 => Op::DecodeFlipped(r.usize_below(512)),
            2 => Op::DecodeCommit,
            3 => Op::Roots,
            4 => Op::Unfinalize,
            5 => Op::ToConstruct,
            6 => Op::Exec,
            7 => Op::Prune,
            8 => Op::Build(r.next_u64()),
            9 => Op::IllTyped(r.byte()),
            10 => Op::Human(r.usize_below(3)),
            11 => Op::Values(r.next_u64()),
            12 => Op::DropShared,
            13 | 14 => Op::TypeTables(r.next_u64()),
            _ => Op::SharedContext(r.next_u64()),
        })
        .collect()
}

struct Workload {
    prog: Vec<u8>,
    wit: Vec<u8>,
    plans: Vec<Vec<Op>>,
}

fn gen_workload(verif_seed: u64, wl: u64) -> Workload {
    let mut r = Rng::new(mix(verif_seed, "c20-miri", wl));
    if wl == 0 {
        // first-use storm: nothing of the library has run in this process yet; every thread's
        // first operation initialises the type tables (in its own seeded order), followed by
        // other jet-free work in own contexts
        let plans: Vec<Vec<Op>> = (0..3)
            .map(|_| {
                let mut v = vec![Op::TypeTables(r.next_u64())];
                v.push(match r.below(4) {
                    3 => Op::SharedContext(r.next_u64()),
                    0 => Op::Values(r.next_u64()),
                    1 => Op::IllTyped(r.byte()),
                    _ => Op::Human(r.usize_below(3)),
                });
                v
            })
            .collect();
        return Workload { prog: Vec::new(), wit: Vec::new(), plans };
    }
    let jets = supported_jets();
    if wl == 1 {
        // jet storm: every thread executes (and prunes) the same small program with jets, so that
        // the Rust side of jet execution runs concurrently on all threads
        let (prog, wit) = loop {
            let rec = programs::limited_jet_recipe(&mut r, 3, &jets);
            if let Some(b) = programs::build(&rec) {
                break b.redeem.to_vec_with_witness();
            }
        };
        // warm-up, then stampede: in round 0 one thread executes alone, in round 1 all three enter
        // execution together (rounds are barrier-aligned, see `main`), then once more with a prune
        let plans: Vec<Vec<Op>> = (0..3)
            .map(|t| match t {
                0 => vec![Op::Exec, Op::Exec, Op::Exec],
                1 => vec![Op::Idle, Op::Exec, Op::Exec],
                _ => vec![Op::Idle, Op::Exec, Op::Prune],
            })
            .collect();
        return Workload { prog, wit, plans };
    }
    if wl == 2 {
        // marathon: four threads on one tiny shared program, so that machines, trackers, contexts
        // and node graphs are created and dropped many times while other threads are inside the
        // same library entry points (whatever process-wide state those entry points keep is then
        // met warm by a crowd, not only cold as in the first-use storm)
        let (prog, wit) = loop {
            let rec = if r.bool() { programs::limited_jet_recipe(&mut r, 2, &jets) } else { programs::jetfree_recipe(&mut r, 3) };
            if let Some(b) = programs::build(&rec) {
                break b.redeem.to_vec_with_witness();
            }
        };
        // pairs of rounds per operation kind: a warm-up round in which one (seeded) thread runs
        // the operation alone, then a stampede round in which all four run it at once
        let mut plans: Vec<Vec<Op>> = vec![Vec::new(); 4];
        for _ in 0..4 {
            let warm = r.usize_below(4);
            let mk = |r: &mut Rng, k: usize| match k {
                0 => Op::Exec,
                1 => Op::Prune,
                2 => Op::Decode,
                3 => Op::Roots,
                4 => Op::ToConstruct,
                5 => Op::Unfinalize,
                6 => Op::DecodeCommit,
                7 => Op::Build(r.next_u64()),
                _ => Op::Values(r.next_u64()),
            };
            let k = r.weighted(&[5, 2, 2, 1, 1, 1, 1, 1, 1]);
            for (t, p) in plans.iter_mut().enumerate() {
                p.push(if t == warm { mk(&mut r, k) } else { Op::Idle });
            }
            for p in plans.iter_mut() {
                p.push(mk(&mut r, k));
            }
        }
        return Workload { prog, wit, plans };
    }
    let (prog, wit) = loop {
        let rec = if r.bool() { programs::limited_jet_recipe(&mut r, 6, &jets) } else { programs::jetfree_recipe(&mut r, 8) };
        if let Some(b) = programs::build(&rec) {
            break b.redeem.to_vec_with_witness();
        }
    };
    let n_threads = r.urange(2, 3);
    let plans: Vec<Vec<Op>> = (0..n_threads)
        .map(|_| {
            let k = r.urange(2, 4);
            gen_ops(&mut r, k)
        })
        .collect();
    Workload { prog, wit, plans }
}

/// usage:
///   vmiri ref  <verif_seed> <n_workloads>                 sequential; prints "REF <hex,hex,...>"
///   vmiri conc <verif_seed> <n_workloads> <hex,hex,...>    threads first; compares with the reference
/// The reference comes from a fresh sequential (native) process, so that process-wide state is in
/// its initial condition there; in `conc` mode nothing of the library is touched before the
/// threads start in odd workloads. Note: workload generation itself uses the library (building
/// the shared program), in both modes alike.
fn main() {
    let args: Vec<String> = std::env::args().collect();
    let mode = args.get(1).map(|s| s.as_str()).unwrap_or("ref");
    let verif_seed: u64 = args.get(2).and_then(|s| s.parse().ok()).unwrap_or(1);
    let n_workloads: u64 = args.get(3).and_then(|s| s.parse().ok()).unwrap_or(1);
    if mode == "ref" {
        let mut all: Vec<String> = Vec::new();
        for wl in 0..n_workloads {
            let w = gen_workload(verif_seed, wl);
            let shared = decode(&w.prog, &w.wit);
            for ops in &w.plans {
                let mut mine = shared.clone();
                for op in ops {
                    all.push(format!("{:016x}", run_op(op, &w.prog, &w.wit, &mut mine, false)));
                }
            }
        }
        println!("REF {}", all.join(","));
        return;
    }
    let reference: Vec<u64> = args
        .get(4)
        .map(|s| s.split(',').filter_map(|x| u64::from_str_radix(x, 16).ok()).collect())
        .unwrap_or_default();
    let mut total_ops = 0u64;
    let mut pos = 0usize;
    for wl in 0..n_workloads {
        let w = gen_workload(verif_seed, wl);
        // even workloads: programs decoded once by the main thread and shared;
        // odd workloads: every thread decodes its own copy first thing
        let share = wl % 2 == 0 && wl != 0;
        let shared = if share { decode(&w.prog, &w.wit) } else { None };
        let prog = Arc::new(w.prog);
        let wit = Arc::new(w.wit);
        let mut hs = Vec::new();
        // contention alignment: the k-th operations of all threads start together (a barrier per
        // round), so that identical library entry points are entered at nearly the same instant
        // and Miri's preemptions land while several threads are inside the same few lines
        let rounds = w.plans.iter().map(|p| p.len()).max().unwrap_or(0);
        let barrier = Arc::new(std::sync::Barrier::new(w.plans.len()));
        for (t, ops) in w.plans.iter().enumerate() {
            let barrier = Arc::clone(&barrier);
            let ops = ops.clone();
            let mut mine = shared.clone();
            let (prog, wit) = (Arc::clone(&prog), Arc::clone(&wit));
            let expect: Vec<u64> = reference.get(pos..pos + ops.len()).map(|x| x.to_vec()).unwrap_or_default();
            pos += ops.len();
            hs.push(std::thread::spawn(move || {
                if !share && !prog.is_empty() {
                    mine = decode(&prog, &wit);
                }
                for k in 0..rounds {
                    barrier.wait();
                    let Some(op) = ops.get(k) else { continue };
                    let d = run_op(op, &prog, &wit, &mut mine, true);
                    if expect.get(k) != Some(&d) {
                        println!(
                            "MIRI-LEG MISMATCH workload={} thread={} op={} {:?}: {:016x} concurrently, reference {:?}",
                            wl,
                            t,
                            k,
                            op,
                            d,
                            expect.get(k).map(|x| format!("{:016x}", x))
                        );
                        std::process::exit(1);
                    }
                }
                ops.len() as u64
            }));
        }
        drop(shared);
        for h in hs {
            total_ops += h.join().expect("thread panicked");
        }
    }
    println!("MIRI-LEG OK verif_seed={} workloads={} concurrent_ops={}", verif_seed, n_workloads, total_ops);
    let _ = Family::Core;
}
